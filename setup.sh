#!/bin/sh
# Build the overlay venv (offline): /venv's site-packages chained in, plus z3/cvc5/crosshair from the wheelhouse.
set -e
cd "$(dirname "$0")"
V=.venv
if [ -x "$V/bin/python" ] && "$V/bin/python" -c "import z3, torch, crosshair, cvc5" 2>/dev/null; then
  exit 0
fi
rm -rf "$V"
/venv/bin/python -m venv "$V"
SP=$("$V/bin/python" -c "import sysconfig; print(sysconfig.get_paths()['purelib'])")
printf "import site; site.addsitedir('/venv/lib/python3.12/site-packages')\n" > "$SP/_chain_venv.pth"
PIP_NO_INDEX=1 "$V/bin/python" -m pip install -q --no-index --find-links /opt/veriftools/wheels z3-solver cvc5 crosshair-tool jsonschema >/dev/null 2>&1 || \
PIP_NO_INDEX=1 "$V/bin/python" -m pip install --no-index --find-links /opt/veriftools/wheels z3-solver cvc5 crosshair-tool jsonschema
"$V/bin/python" -c "import z3, torch, crosshair, cvc5; print('overlay venv ok', z3.get_version_string())"
