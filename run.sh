#!/bin/sh
# usage: run.sh <property-id> <quick|thorough> [extra args]
cd "$(dirname "$0")"
sh ./setup.sh >/dev/null 2>&1 || sh ./setup.sh || exit 2
export PYTHONPATH="${VT_REPO:-/repo}:$(pwd)"
export PYTHONDONTWRITEBYTECODE=1
export TORCHSDE_VERIF=1
export OMP_NUM_THREADS=1 MKL_NUM_THREADS=1 OPENBLAS_NUM_THREADS=1
exec .venv/bin/python -m vt.cli "$@"
