"""Shared run context: obligations, solver bookkeeping, known findings, replay, evidence, exit codes.

exit 0: everything explored held (known findings are printed as KNOWN-FINDING lines)
exit 1: a violation that reproduced on the real code and is not a listed known finding (VIOLATION line printed)
exit 2: harness error / inconclusive (unknown, timeout, unsupported op, vacuous harness, non-reproducing counterexample)
"""
import json
import os
import sys
import time
import traceback

ROOT = os.path.dirname(os.path.dirname(os.path.abspath(__file__)))
REPO = os.environ.get('VT_REPO', '/repo')
_OUT = os.environ.get('VT_OUT') or ROOT          # dev self-tests against scratch copies write elsewhere
EVIDENCE_DIR = os.path.join(_OUT, 'evidence')
REPLAY_DIR = os.path.join(_OUT, 'replays')
FINDINGS_FILE = os.path.join(ROOT, 'known_findings.json')


class Inconclusive(Exception):
    pass


def z3_check(solver, timeout_ms):
    """solver.check() under z3's own timeout.  (z3 does not always honour it inside polynomial preprocessing; a query that
    overruns is cut by the per-task process timeout of pmap and reported as inconclusive.  A watchdog thread calling
    ctx.interrupt() was tried and crashed z3 with heap corruption, so it is not used.)"""
    solver.set('timeout', int(timeout_ms))
    try:
        return str(solver.check())
    except Exception:
        return 'unknown'


def load_findings():
    try:
        with open(FINDINGS_FILE) as f:
            return json.load(f)
    except FileNotFoundError:
        return {'findings': []}


class Ctx:
    def __init__(self, pid, tier, seed):
        self.pid = pid
        self.tier = tier
        self.seed = seed
        self.t0 = time.time()
        self.functions = []          # real functions executed symbolically
        self.bounds = {}
        self.stubs = []
        self.assumptions = []
        self.outside = []            # what is outside the claim
        self.samples = []
        self.paths = 0               # states: symbolic paths / scenarios explored
        self.queries = 0             # transitions: solver queries discharged
        self.validated = 0           # concrete re-runs of the real code that matched the symbolic run
        self.solver_s = 0.0
        self.obligations = []        # dicts name/status/detail
        self.violations = []         # dicts
        self.known = []
        self.inconclusive = []
        self.twins = 0               # reachability twins that came back sat as required
        self.notes = []
        self.extra = {}
        self._sigs = set()

    # ---- bookkeeping
    def fn(self, *names):
        for n in names:
            if n not in self.functions:
                self.functions.append(n)

    def sample(self, s, limit=12):
        if len(self.samples) < limit:
            self.samples.append(s)

    def ok(self, name, detail=None):
        self.obligations.append({'name': name, 'status': 'holds', **({'detail': detail} if detail else {})})

    def inconc(self, name, why):
        self.obligations.append({'name': name, 'status': 'inconclusive', 'detail': why})
        self.inconclusive.append((name, why))
        print(f"INCONCLUSIVE {self.pid} {name}: {why}", flush=True)

    def twin(self, name, came_back_sat):
        """reachability twin: a deliberately false assertion must be refuted by the solver"""
        if came_back_sat:
            self.twins += 1
        else:
            self.inconc(name, 'reachability twin was not refuted: harness is vacuous')

    # ---- z3 helper
    def check_sat(self, solver, what=''):
        import z3
        t = time.time()
        r = z3_check(solver, 60000 if self.tier == 'quick' else 600000)
        self.solver_s += time.time() - t
        self.queries += 1
        return str(r)

    def prove(self, name, claim, assumptions=(), timeout_ms=None, on_sat=None, quiet=False):
        """claim: z3 BoolRef that must be valid under assumptions.  returns 'unsat' (holds) / 'sat' / 'unknown'.
        on_sat(model) -> handled by caller."""
        import z3
        s = z3.Solver()
        s.set('timeout', timeout_ms or (60000 if self.tier == 'quick' else 600000))
        for a in assumptions:
            s.add(a)
        s.add(z3.Not(claim))
        r = self.check_sat(s)
        if r == 'unsat':
            if not quiet:
                self.ok(name)
            return 'unsat', None
        if r == 'sat':
            return 'sat', s.model()
        self.inconc(name, f'solver returned {r} ({s.reason_unknown()})')
        return 'unknown', None

    # ---- violations
    def violation(self, signature, message, replay=None, reproduce=True):
        """signature: stable identifier of WHAT fails (configuration + failing term), used for known findings.
        replay: dict handed to <prop module>.replay() in a fresh process on the pristine library
        (re-runnable: run.sh <pid> --replay <path>).  Only a reproducing counterexample is reported."""
        if signature in self._sigs:
            return
        self._sigs.add(signature)
        os.makedirs(REPLAY_DIR, exist_ok=True)
        path = os.path.join(REPLAY_DIR, f"{self.pid}_{_slug(signature)}.json")
        data = {'property': self.pid, 'signature': signature, 'message': message, 'replay': replay}
        with open(path, 'w') as f:
            json.dump(data, f, indent=1, default=str)
        reproduced, out = (None, '')
        if reproduce:
            reproduced, out = run_replay(self.pid, data)
            self.validated += 1
        if reproduce and not reproduced:
            self.inconc(f'replay:{signature}', f'counterexample did not reproduce on the real code ({message}); '
                                               f'encoder or stub defect? replay output: {out[-400:]}')
            return
        listed = None
        for k in load_findings().get('findings', []):
            if k.get('property') == self.pid and k.get('status') == 'known' and _match(k.get('signature'), signature):
                listed = k
                break
        rec = {'signature': signature, 'message': message, 'replay': path, 'reproduced': reproduced,
               'replay_output': out[-600:]}
        if listed is not None:
            self.known.append(rec)
            print(f"KNOWN-FINDING: property={self.pid} {signature}: {message}", flush=True)
        else:
            self.violations.append(rec)
            print(f"VIOLATION property={self.pid} replay={path}", flush=True)
            print(f"  what: {signature}: {message}", flush=True)

    # ---- finish
    def finish(self):
        wall = time.time() - self.t0
        status = 'holds'
        code = 0
        if self.violations:
            status, code = 'violated', 1
        elif self.inconclusive:
            status, code = 'inconclusive', 2
        n_holds = sum(1 for o in self.obligations if o['status'] == 'holds')
        cov = {
            'states': max(self.paths, 1) if n_holds else self.paths,
            'transitions': self.queries,
            'traces_validated_against_impl': self.validated,
            'samples': self.samples or ['(no sample recorded)'],
            'rule': 'states = symbolic paths / scenarios of the real code executed; transitions = SMT queries discharged; '
                    'traces_validated = concrete re-runs of the unpatched code compared with the symbolic run',
            'functions_encoded': self.functions,
            'bounds': self.bounds,
            'outside_claim': self.outside,
            'stubs': self.stubs,
            'obligations': len(self.obligations),
            'discharged': n_holds,
            'obligations_total': len(self.obligations),
            'obligations_holding': n_holds,
            'obligation_list': self.obligations[:400],
            'reachability_twins_refuted': self.twins,
            'solver_seconds': round(self.solver_s, 3),
            'solver': _solver_version(),
            'status': status,
            'known_findings_seen': self.known,
            'violations': self.violations,
            'inconclusive': [{'name': n, 'why': w} for n, w in self.inconclusive],
            'notes': self.notes,
            'exhaustive': False,
        }
        cov.update(self.extra)
        ev = {
            'property_id': self.pid,
            'tier': self.tier,
            'seed': self.seed,
            'level': 'model_checking',
            'coverage': cov,
            'assumptions': self.assumptions,
            'wall_s': round(wall, 3),
            'violations': len(self.violations),
        }
        os.makedirs(EVIDENCE_DIR, exist_ok=True)
        with open(os.path.join(EVIDENCE_DIR, f"{self.pid}.json"), 'w') as f:
            json.dump(ev, f, indent=1, default=str)
        # self-check of the evidence just written against the published schema (when it is present on this machine)
        try:
            import jsonschema
            sp = '/root/.vp/EVIDENCE.schema.json'
            if os.path.exists(sp):
                jsonschema.validate(json.load(open(os.path.join(EVIDENCE_DIR, f"{self.pid}.json"))), json.load(open(sp)))
        except ImportError:
            pass
        except Exception as e:  # an invalid evidence file counts as no evidence: say so loudly
            print(f"WARNING evidence file does not validate against the schema: {str(e)[:300]}", file=sys.stderr)
        print(f"[{self.pid}/{self.tier}] {status}: {n_holds}/{len(self.obligations)} obligations hold, "
              f"paths={self.paths} queries={self.queries} validated={self.validated} twins={self.twins} "
              f"solver={self.solver_s:.1f}s wall={wall:.1f}s known={len(self.known)} "
              f"violations={len(self.violations)} inconclusive={len(self.inconclusive)}", flush=True)
        return code


def _slug(s):
    import hashlib
    keep = ''.join(c if c.isalnum() else '_' for c in s)[:60]
    return keep + '_' + hashlib.sha1(s.encode()).hexdigest()[:8]


def _match(pattern, sig):
    if pattern is None:
        return False
    return pattern == sig


def _solver_version():
    try:
        import z3
        return 'z3 ' + z3.get_version_string()
    except Exception:
        return 'z3 ?'


# ---------------------------------------------------------------- parallel map over independent scenarios
def _pcall(args):
    fn, item = args
    import traceback
    try:
        return ('ok', fn(item))
    except Inconclusive as e:
        return ('inconclusive', str(e))
    except BaseException as e:
        return ('error', f"{type(e).__name__}: {e}\n{traceback.format_exc()[-1500:]}")


def _child(conn, fn, item):
    try:
        conn.send(_pcall((fn, item)))
    except BaseException as e:          # result not picklable etc.
        try:
            conn.send(('error', f'{type(e).__name__}: {e}'))
        except Exception:
            pass
    finally:
        conn.close()


def pmap(fn, items, procs=None, task_timeout=None):
    """run fn(item) for each item in its own forked process (at most `procs` at a time).  Returns a list of
    ('ok'|'inconclusive'|'error', value) in input order.  A worker that dies (crash inside a native library) or exceeds
    task_timeout is reported as inconclusive for that item instead of hanging the run."""
    import multiprocessing as mp
    items = list(items)
    procs = min(procs or int(os.environ.get('VT_PROCS', '0') or 0) or (os.cpu_count() or 4), max(1, len(items)))
    task_timeout = task_timeout or float(os.environ.get('VT_TASK_TIMEOUT', '0') or 0) or 1500.0
    if len(items) == 0:
        return []
    ctx = mp.get_context('fork')
    results = [None] * len(items)
    pending = list(range(len(items)))
    running = {}          # idx -> (process, conn, t_start)
    while pending or running:
        while pending and len(running) < procs:
            i = pending.pop(0)
            parent, child = ctx.Pipe(duplex=False)
            p = ctx.Process(target=_child, args=(child, fn, items[i]))
            p.daemon = True
            p.start()
            child.close()
            running[i] = (p, parent, time.time())
        done = []
        for i, (p, conn, t0) in running.items():
            if conn.poll(0):
                try:
                    results[i] = conn.recv()
                except EOFError:
                    results[i] = ('inconclusive', f'worker died without a result (exit code {p.exitcode})')
                done.append(i)
            elif not p.is_alive():
                # the child may have sent its result just before exiting
                if conn.poll(0.2):
                    try:
                        results[i] = conn.recv()
                    except EOFError:
                        results[i] = ('inconclusive', f'worker died without a result (exit code {p.exitcode})')
                else:
                    results[i] = ('inconclusive', f'worker died without a result (exit code {p.exitcode})')
                done.append(i)
            elif time.time() - t0 > task_timeout:
                p.kill()
                results[i] = ('inconclusive', f'task exceeded {task_timeout:.0f} s')
                done.append(i)
        for i in done:
            p, conn, _ = running.pop(i)
            p.join(timeout=5)
            conn.close()
        if not done:
            time.sleep(0.05)
    return results


def run_replay(pid, data, timeout=600):
    """re-run a counterexample on the pristine library in a fresh process.  True iff it reproduces."""
    import subprocess
    import tempfile
    os.makedirs(REPLAY_DIR, exist_ok=True)
    fd, path = tempfile.mkstemp(prefix=f"{pid}_try_", suffix='.json', dir=REPLAY_DIR)
    with os.fdopen(fd, 'w') as f:
        json.dump(data, f, default=str)
    try:
        env = dict(os.environ)
        env['PYTHONPATH'] = f"{REPO}:{ROOT}"
        r = subprocess.run([sys.executable, '-m', 'vt.cli', pid, '--replay', path], cwd=ROOT, env=env,
                           capture_output=True, text=True, timeout=timeout)
        out = (r.stdout or '') + (r.stderr or '')
        return r.returncode == 1, out[-3000:]
    except subprocess.TimeoutExpired:
        return None, 'replay timed out'
    finally:
        try:
            os.unlink(path)
        except OSError:
            pass


def frac_to_float(d):
    from fractions import Fraction
    out = {}
    for k, v in d.items():
        out[k] = float(Fraction(v)) if not isinstance(v, float) else v
    return out
