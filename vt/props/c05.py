"""C05 - repeated queries are bit-identical whatever happened in between.

Decided by structural identity of the executed float-operation DAG: the second answer must be built from the same float
operations on the same (cached or regenerated) operands in the same order as the first, for every path of the real code
reachable with symbolic query times.  Where the two DAGs differ, z3 decides whether the VALUES can differ (-> violation);
real-equal but structurally different answers are replayed on floats to see whether bits differ."""
import time
from fractions import Fraction

import numpy as np
import torch

from .. import dag, symx, brownian as B, bshim
from ..core import pmap, Inconclusive
from ..dag import Node, lift
from ..symtorch import Unsupported, SymT
from ..symx import Engine
from .c03 import HAVE_H, HAVE_A, _ndigits, _jsonable


def snapshot(r):
    r = r if isinstance(r, tuple) else (r,)
    return [None if p is None else (list(p.sym.reshape(-1)) if isinstance(p, SymT) else None, p.elem.clone() if isinstance(p, SymT) else p.clone())
            for p in r], r


def harness(cfg, nprior, nbetween, warm):
    c = dict(B.DEFAULT); c.update(cfg)
    levy = c['levy']
    grid = _ndigits(c['tol'])
    kw = {}
    if levy in HAVE_H: kw['return_U'] = True
    if levy in HAVE_A: kw['return_A'] = True

    ml = Fraction(1, 4) if warm else None      # forced tree refinement: bound its depth by a minimal query length

    def h(E):
        try:
            bm, top, lo, hi = B.make(E, cfg)
            if warm and not c['halfway'] and c['dt'] is None:
                top._num_evaluations = -1          # state reached after 99 queries: tree refinement fires inside the history
            for k in range(nprior):
                a, b = B.sym_query(E, f'p{k}', lo, hi, Fraction(1 + k, 8) + lo.v, Fraction(5 + k, 8) + lo.v, grid, ml)
                bm(a, b, **kw)
            s, t = B.sym_query(E, 'q', lo, hi, lo.v + Fraction(1, 4), lo.v + Fraction(3, 4), grid, ml)
            if c.get('point'):
                # wrappers with an initial value (BrownianTree / BrownianPath): single-argument point queries W(t) = w0 + W(t0, t)
                # interleaved with interval queries over the same nodes; every answer must repeat bit for bit
                seq = [lambda: bm(t), lambda: bm(lo, t), lambda: bm(hi), lambda: bm(s, t)]
                first = [snapshot(f()) for f in seq]
                for k in range(nbetween):
                    a, b = B.sym_query(E, f'm{k}', lo, hi, Fraction(2 + k, 16) + lo.v, Fraction(9 + k, 16) + lo.v, grid, ml)
                    bm(b); bm(a, b)
                second = [snapshot(f()) for f in seq]
                for nm, (p1s, r1s), (p2s, _) in zip(['point', 'W-from-t0', 'point-t1', 'W'], first, second):
                    p1, p2, live1 = p1s[0], p2s[0], r1s[0]
                    if not torch.equal(p1[1], p2[1]):
                        E.fail(f'repeat-{nm}', 'concrete', f'bits differ in the concrete run: {p1[1].reshape(-1)[:3].tolist()} vs {p2[1].reshape(-1)[:3].tolist()}')
                    if p1[0] is not None and p2[0] is not None:
                        for x, y in zip(p1[0], p2[0]):
                            if x is not y:
                                if B.prove_eq(E, f'repeat-{nm}', x, y):
                                    E.fail(f'repeat-{nm}-structure', 'structure', 'answers are equal as reals but computed by different float operations')
                                break
                    if isinstance(live1, SymT) and p1[0] is not None:
                        if not torch.equal(live1.elem, p1[1]) or any(a_ is not b_ for a_, b_ in zip(live1.sym.reshape(-1), p1[0])):
                            E.fail(f'returned-{nm}-mutated', 'concrete', 'a tensor returned earlier was modified in place by a later call')
                return
            snap1, r1 = snapshot(bm(s, t, **kw))
            for k in range(nbetween):
                if warm:
                    # the query that triggers the tree refinement has concrete times (bounds the refinement depth)
                    a, b = lo.v + Fraction(1 + 2 * k, 8), lo.v + Fraction(3 + 2 * k, 8)
                else:
                    a, b = B.sym_query(E, f'm{k}', lo, hi, Fraction(2 + k, 16) + lo.v, Fraction(9 + k, 16) + lo.v, grid, ml)
                bm(a, b, **kw)
            snap2, r2 = snapshot(bm(s, t, **kw))
            names = ['W', 'U', 'A'] if len(snap1) == 3 else (['W', 'U'] if len(snap1) == 2 else ['W'])
            for nm, p1, p2, live1 in zip(names, snap1, snap2, r1):
                if p1 is None and p2 is None:
                    continue
                if p1[0] is None or p2[0] is None:
                    if not torch.equal(p1[1], p2[1]):
                        E.fail(f'repeat-{nm}', 'concrete', 'plain tensors differ between the two answers')
                    continue
                if not torch.equal(p1[1], p2[1]):
                    E.fail(f'repeat-{nm}', 'concrete', f'bits differ in the concrete run: {p1[1].reshape(-1)[:3].tolist()} vs {p2[1].reshape(-1)[:3].tolist()}')
                for i, (x, y) in enumerate(zip(p1[0], p2[0])):
                    if x is y:
                        continue
                    ok = B.prove_eq(E, f'repeat-{nm}', x, y)
                    if ok:
                        E.fail(f'repeat-{nm}-structure', 'structure', 'answers are equal as reals but computed by different float operations')
                    break
                # the tensor handed out first must not have been mutated afterwards
                if isinstance(live1, SymT):
                    if not torch.equal(live1.elem, p1[1]) or any(a is not b for a, b in zip(live1.sym.reshape(-1), p1[0])):
                        E.fail(f'returned-{nm}-mutated', 'concrete', 'a tensor returned earlier was modified in place by a later call')
        except (Inconclusive, Unsupported):
            raise
        except Exception as e:
            import traceback
            E.fail('crash', 'exception', f"{type(e).__name__}: {e} | {traceback.format_exc()[-500:]}")
    return h


def run_one(task):
    cfg, nprior, nbetween, warm, max_paths, timeout_ms = task
    B.setup()
    E = Engine(max_paths=max_paths, timeout_ms=timeout_ms)
    t = time.time()
    fails = E.explore(harness(cfg, nprior, nbetween, warm))
    return dict(stats=E.stats, wall=time.time() - t, samples=E.path_log[:2],
                failures=[dict(what=f.what, kind=f.kind, inputs={k: str(v) for k, v in f.inputs.items()}, detail=f.detail[:500])
                          for f in fails[:20]], nfail=len(fails))


def tasks_for(tier):
    q = tier == 'quick'
    mp, to = (6000, 60000) if q else (100000, 300000)
    T = [
        (dict(levy='none', size=(2,), cache_size=0), 0, 1, False, mp, to),
        (dict(levy='space-time', size=(1,), cache_size=1), 1, 1, False, mp, to),
        (dict(levy='davie', size=(1, 2), cache_size=2), 0, 1, False, mp, to),
        (dict(levy='foster', size=(1, 2), cache_size=45), 1, 1, False, mp, to),
        (dict(levy='space-time', size=(1,), cache_size=1), 0, 1, True, mp, to),
        # a time axis that straddles zero: split points and end points may be exactly 0.0
        (dict(levy='none', size=(1,), cache_size=1, t0=Fraction(-1, 2), t1=Fraction(1, 2)), 0, 1, True, mp, to),
        (dict(levy='davie', size=(1, 2), cache_size=None), 1, 1, False, mp, to),
        (dict(levy='space-time', size=(1,), cache_size=1, tol=0.1, halfway=True, t1=Fraction(1, 2)), 0, 1, False, mp, to),
        (dict(levy='none', size=(1,), cache_size=3, dt=0.25), 0, 1, False, mp, to),
        # wrappers with an initial value w0 != 0 and single-argument point queries (seeded change C05d)
        (dict(wrapper='tree', levy='none', size=(1,), tol=0.1, t1=Fraction(1, 2), w0=1.5, point=True), 0, 1, False, mp, to),
        (dict(wrapper='path', levy='none', size=(2,), w0=-0.75, point=True), 0, 1, False, mp, to),
    ]
    if not q:
        T += [
            (dict(levy='space-time', size=(1,), cache_size=1), 0, 2, False, mp, to),
            (dict(levy='davie', size=(1, 2), cache_size=1), 0, 1, True, mp, to),
            (dict(levy='none', size=(1,), cache_size=2), 0, 2, True, mp, to),
            (dict(levy='foster', size=(2, 2), cache_size=2), 0, 2, False, mp, to),
            (dict(levy='space-time', size=(1,), cache_size=2, tol=0.1, halfway=True, t1=Fraction(1, 2)), 1, 1, False, mp, to),
        ]
    return T


def run(ctx):
    ctx.fn('BrownianInterval.__call__', '_Interval._loc_inner', '_Interval._split', '_Interval._split_exact',
           '_Interval._increment_and_space_time_levy_area', '_Interval._increment_and_levy_area', '_davie_foster_approximation',
           '_LRUDict.__setitem__', '_EmptyDict', 'BrownianInterval._create_dependency_tree', '_H_to_U')
    ctx.stubs += bshim.STUBS
    ctx.bounds = {'history before the query': '<=1 symbolic query', 'operations in between': '<=1 (quick) / <=2 symbolic queries, optional forced tree refinement',
                  'cache sizes': '0, 1, 2, 3, 45, None', 'shapes': '(), (1,), (2,), (1,2), (2,2)'}
    ctx.assumptions += ['IEEE-754 / PyTorch kernels are deterministic: the same float operations on the same operands in the same order give the same bits',
                        'the tree-refinement trigger state (_num_evaluations = -1) is the state reached after 99 queries']
    ctx.outside += ['non-determinism inside PyTorch kernels', 'longer interleavings than the bound']
    tasks = tasks_for(ctx.tier)
    for t, (st, res) in zip(tasks, pmap(run_one, tasks)):
        name = f"{B.cfg_name(t[0])}|prior={t[1]}|between={t[2]}|warm={t[3]}"
        if st != 'ok':
            ctx.inconc(name, str(res)[:500]); continue
        ctx.paths += res['stats']['paths']; ctx.queries += res['stats']['queries']; ctx.solver_s += res['stats']['solver_s']
        ctx.validated += res['stats']['paths']
        ctx.sample({'scenario': name, 'paths': res['stats']['paths'], 'example': res['samples'][:1]})
        if not res['nfail']:
            ctx.ok(name, f"{res['stats']['paths']} paths, {res['stats']['queries']} queries, {res['wall']:.1f}s"); continue
        seen = set()
        for f in res['failures']:
            if f['what'] in seen:
                continue
            seen.add(f['what'])
            if f['kind'] == 'unknown':
                ctx.inconc(f"{name}|{f['what']}", f['detail'][:200]); continue
            ctx.violation(f"{B.cfg_name(t[0])}|{f['what']}", f"{f['what']}: {f['detail'][:200]}",
                          replay=dict(cfg=_jsonable(t[0]), nprior=t[1], nbetween=t[2], warm=t[3], inputs=f['inputs'], what=f['what']))
    # twin: two DIFFERENT intervals claimed identical must be refuted
    B.setup()
    E = Engine(max_paths=30)

    def tw(E):
        bm, top, lo, hi = B.make(E, dict(levy='none', size=(1,)))
        s, t = B.sym_query(E, 'q', lo, hi, Fraction(1, 4), Fraction(3, 4))
        u = E.input('u', Fraction(1, 2)); E.assume((s < u) & (u < t))
        a = bm(s, t); b = bm(s, u)
        if a.sym[0] is not b.sym[0]:
            B.prove_eq(E, 'twin', a.sym[0], b.sym[0])
    ctx.twin('twin: W(s,t) identical to W(s,u) must fail', any(f.kind == 'sat' for f in E.explore(tw)))


def replay(data):
    import torchsde
    r = data['replay']
    cfg = dict(B.DEFAULT); cfg.update(r['cfg'])
    inp = {k: float(Fraction(v)) for k, v in r['inputs'].items()}
    size = tuple(cfg['size'])
    levy = cfg['levy']
    kw = {}
    if levy in HAVE_H: kw['return_U'] = True
    if levy in HAVE_A: kw['return_A'] = True
    grid = _ndigits(cfg['tol'])

    def q(name):
        if grid is None:
            return inp[name + 'a'], inp[name + 'b']
        return inp[name + 'ka'] / 10 ** grid, inp[name + 'kb'] / 10 ** grid
    bad = []
    if cfg.get('point'):
        return replay_point(cfg, r, q)
    try:
        dt = cfg['dt'] if cfg['dt'] != 'sym' else inp.get('DT')
        bm = torchsde.BrownianInterval(t0=float(Fraction(cfg['t0'])), t1=float(Fraction(cfg['t1'])), size=size, dtype=torch.float64,
                                       entropy=cfg['entropy'], levy_area_approximation=levy, cache_size=cfg['cache_size'],
                                       dt=dt, tol=cfg['tol'], halfway_tree=cfg['halfway'])
        if r['warm'] and not cfg['halfway'] and cfg['dt'] is None:
            # reach the refinement trigger through the public API: 99 warm-up queries of the first history interval
            a0, b0 = (q('p0') if r['nprior'] else q('q'))
            for _ in range(99):
                bm(a0, b0, **kw)
        for k in range(r['nprior']):
            bm(*q(f'p{k}'), **kw)
        s, t = q('q')
        r1 = bm(s, t, **kw); r1 = r1 if isinstance(r1, tuple) else (r1,)
        keep = [p.clone() if p is not None else None for p in r1]
        for k in range(r['nbetween']):
            if r['warm']:
                lo_ = float(Fraction(cfg['t0']))
                bm(lo_ + (1 + 2 * k) / 8, lo_ + (3 + 2 * k) / 8, **kw)
            else:
                bm(*q(f'm{k}'), **kw)
        r2 = bm(s, t, **kw); r2 = r2 if isinstance(r2, tuple) else (r2,)
        for nm, a, b, live in zip('WUA', keep, r2, r1):
            if a is None:
                continue
            if not torch.equal(a, b):
                bad.append(f'{nm} differs on repeat: max abs diff {float((a - b).abs().max())}')
            if not torch.equal(a, live):
                bad.append(f'{nm} returned earlier was mutated')
    except Exception as e:
        bad.append(f'crash {type(e).__name__}: {e}')
    print('replay C05:', bad or 'bit-identical')
    return bool(bad)


def replay_point(cfg, r, q):
    """BrownianTree / BrownianPath with w0 != 0 on floats: point and interval queries repeated around other queries"""
    import torchsde
    size = tuple(cfg['size'])
    t0, t1 = float(Fraction(cfg['t0'])), float(Fraction(cfg['t1']))
    w0 = torch.full(size, float(cfg.get('w0', 0)), dtype=torch.float64)
    if cfg['wrapper'] == 'tree':
        bm = torchsde.BrownianTree(t0=t0, w0=w0, t1=t1, entropy=cfg['entropy'], tol=cfg['tol'] or 0.1)
    else:
        bm = torchsde.BrownianPath(t0=t0, w0=w0)
    s, t = q('q')
    seq = [('point', lambda: bm(t)), ('W-from-t0', lambda: bm(t0, t)), ('point-t1', lambda: bm(t1)), ('W', lambda: bm(s, t))]
    bad = []
    try:
        first = [(f(),) for _, f in seq]
        keep = [x[0].clone() for x in first]
        for k in range(r['nbetween']):
            a, b = q(f'm{k}')
            bm(b); bm(a, b)
        # sweep a few more grid points so that the replay does not depend on the solver's choice of the in-between query
        for b in [t0 + (t1 - t0) * i / 8 for i in range(1, 9)]:
            bm(b)
        second = [f() for _, f in seq]
        for (nm, _), a, b, (live,) in zip(seq, keep, second, first):
            if not torch.equal(a, b):
                bad.append(f'{nm} differs on repeat: max abs diff {float((a - b).abs().max())}')
            if not torch.equal(a, live):
                bad.append(f'{nm} returned earlier was mutated')
    except Exception as e:
        bad.append(f'crash {type(e).__name__}: {e}')
    print('replay C05 (point queries):', bad or 'bit-identical')
    return bool(bad)
