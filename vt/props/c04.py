"""C04 - exact Brownian law: covariance of the linear map (unit noise -> outputs) of the real BrownianInterval."""
import time
from fractions import Fraction

import numpy as np
import z3

from .. import dag, symx, brownian as B, bshim
from ..core import pmap, Inconclusive
from ..dag import Node, lift
from ..symtorch import Unsupported
from ..symx import Engine

HAVE_H = ('space-time', 'davie', 'foster')


def is_levy_noise(name, size):
    """noise symbols drawn at shape size + size[-1:] (the Levy-area noise)"""
    if not name.startswith('N') or 's' not in name:
        return False
    shape = name.split('s', 1)[1].split('_')[0].split('x')
    return len(shape) == len(size) + 1


def unit_var(name, T0, T1):
    """variance of a basis symbol: unit for generator noise; supplied W0 ~ N(0, T1-T0), H0 ~ N(0, (T1-T0)/12)"""
    if name.startswith('W0'):
        return T1 - T0
    if name.startswith('H0'):
        return (T1 - T0) / lift(12)
    return dag.ONE


def cov(la, lb, T0, T1):
    tot = dag.ZERO
    for k in la:
        if k in lb:
            tot = dag._add(tot, dag._mul(dag._mul(la[k], lb[k]), unit_var(k, T0, T1)))
    return tot


def harness(cfg, nprior, npieces):
    c = dict(B.DEFAULT); c.update(cfg)
    levy = c['levy']
    have_H = levy in HAVE_H
    kw = {'return_U': True} if have_H else {}
    size = tuple(c['size'])

    def h(E):
        try:
            bm, top, lo, hi = B.make(E, cfg)
            for k in range(nprior):
                if c.get('prior_times'):
                    a, b = [Fraction(v) for v in c['prior_times'][k]]
                else:
                    a, b = B.sym_query(E, f'p{k}', lo, hi, Fraction(1 + k, 8) + lo.v, Fraction(5 + k, 8) + lo.v)
                bm(a, b, **kw)
            span = hi.v - lo.v
            if c.get('pinned'):
                # single-split lemma: the partition is exactly one split of the whole (arbitrary) interval
                x = E.input('x1', lo.v + span * Fraction(1, 3))
                E.assume((x > lo) & (x < hi))
                pts = [lo, x, hi]
            elif c.get('times'):
                from ..symx import CR
                pts = [CR(Fraction(v), lift(Fraction(v))) for v in c['times']]
            elif c['tol']:
                # tolerance mode resolves every time to the grid of the tolerance: the law is claimed for resolved times
                from .c03 import _ndigits
                from ..symx import CR
                scale = 10 ** _ndigits(c['tol'])
                klo, khi = int(lo.v * scale), int(hi.v * scale)
                ks = [E.input_int(f'k{i}', min(klo + i, khi), lo=klo, hi=khi) for i in range(npieces + 1)]
                for p, q in zip(ks[:-1], ks[1:]):
                    E.assume(p < q)
                ks = [E.concretize_int(k, klo, khi) for k in ks]
                pts = [CR(Fraction(k.v) / scale, lift(Fraction(k.v) / scale)) for k in ks]
            else:
                pts = [E.input(f'x{i}', lo.v + span * Fraction(i + 1, npieces + 2)) for i in range(npieces + 1)]
                E.assume(pts[0] >= lo); E.assume(pts[-1] <= hi)
                for p, q in zip(pts[:-1], pts[1:]):
                    E.assume(p < q)
            scal = []      # (label, node)
            for i, (p, q) in enumerate(zip(pts[:-1], pts[1:])):
                r = bm(p, q, **kw)
                W = r[0] if have_H else r
                for e, w in enumerate(B.flat(W)):
                    scal.append((f'W{i}[{e}]', w, ('W', i, e)))
                if have_H:
                    ln = q.n - p.n
                    for e, (u, w) in enumerate(zip(B.flat(r[1]), B.flat(W))):
                        scal.append((f'H{i}[{e}]', u / ln - w / lift(2), ('H', i, e)))
            basis = B.noise_basis(*[n for _, n, _ in scal])
            forms = []
            for lab, n, key in scal:
                try:
                    lf, const = dag.linear_form(n, basis)
                except ValueError as ex:
                    E.fail(f'gaussian:{lab}', 'concrete', f'output is not a linear function of the noise: {ex}')
                    return
                B.prove_eq(E, f'zero-mean:{lab}', const, dag.ZERO)
                forms.append((lab, lf, key))
            T0, T1 = top._start.n, top._end.n
            for ai in range(len(forms)):
                for bi_ in range(ai, len(forms)):
                    la, fa, ka = forms[ai]; lb, fb, kb = forms[bi_]
                    cv = cov(fa, fb, T0, T1)
                    if ai == bi_:
                        i = ka[1]
                        ln = pts[i + 1].n - pts[i].n
                        want = ln if ka[0] == 'W' else ln / lift(12)
                    else:
                        want = dag.ZERO
                    B.prove_eq(E, f'cov({la},{lb})', cv, want)
            # seeds of distinct tree nodes are distinct (real numpy SeedSequence values, concrete per path)
            seeds = [int(top._top_a_seed)]
            for nd in B.nodes_of(top):
                if nd._midway is not None:
                    seeds += [int(nd._W_seed), int(nd._H_seed), int(nd._left_a_seed), int(nd._right_a_seed)]
            if len(set(seeds)) != len(seeds):
                E.fail('seed-collision', 'concrete', f'two noise sources share a seed: {seeds}')
            # noise requested at the full sample shape
            for sd, shp in bshim.NOISE_CALLS:
                if tuple(shp) not in (size, size + size[-1:]):
                    E.fail('noise-shape', 'concrete', f'noise drawn at shape {shp} for sample shape {size}')
            # whole-interval query returns the supplied values exactly
            if c['supply_W'] or c['supply_H']:
                r = bm(lo, hi, **kw)
                W = r[0] if have_H else r
                if c['supply_W']:
                    for e, w in enumerate(B.flat(W)):
                        B.prove_eq(E, 'supplied-W-returned', w, dag.var(f'W0_{e}'))
                if c['supply_H'] and have_H:
                    for e, (u, w) in enumerate(zip(B.flat(r[1]), B.flat(W))):
                        B.prove_eq(E, 'supplied-H-returned', u / (hi.n - lo.n) - w / lift(2), dag.var(f'H0_{e}'))
        except (Inconclusive, Unsupported):
            raise
        except Exception as e:
            import traceback
            E.fail('crash', 'exception', f"{type(e).__name__}: {e} | {traceback.format_exc()[-500:]}")
        finally:
            del bshim.NOISE_CALLS[:]
    return h


def levy_harness(cfg, split):
    """Davie / Foster: conditional mean and variance of A given (W, H) on a stored piece (split False/True), and of a query
    answered by MERGING two stored pieces (split == 'merge'): given the pieces' (W_k, H_k) the mean must be
    sum_k (H_k W_k^T - W_k H_k^T) + 1/2 (W_1 W_2^T - W_2 W_1^T), the variance the sum of the pieces' variances, and A
    antisymmetric"""
    c = dict(B.DEFAULT); c.update(cfg)
    size = tuple(c['size'])
    m = size[-1]

    def parts(r, ln):
        W, U, A = r
        Ws = W.sym.reshape(-1, m); Us = U.sym.reshape(-1, m); As = A.sym.reshape(-1, m, m)
        Hs = np.empty_like(Ws)
        for idx in np.ndindex(*Ws.shape):
            Hs[idx] = Us[idx] / ln - Ws[idx] / lift(2)
        return Ws, Hs, As

    def want_var(ln, Hs, b, i, j):
        h2 = ln * ln
        if c['levy'] == 'davie':
            return h2 / lift(12)
        return h2 / lift(20) + ln / lift(5) * (Hs[b, i] * Hs[b, i] + Hs[b, j] * Hs[b, j])

    def h(E):
        try:
            bm, top, lo, hi = B.make(E, cfg)
            pieces = []
            if split == 'merge':
                x = E.input('x', lo.v + (hi.v - lo.v) / 2)
                s_ = E.input('s', lo.v + (hi.v - lo.v) / 4); t_ = E.input('t', lo.v + (hi.v - lo.v) * 3 / 4)
                E.assume((s_ > lo) & (s_ < x) & (x < t_) & (t_ < hi))
                bm(lo, x)                                  # history: the tree is split at x
                p, q = s_, t_
                tot = bm(p, q, return_U=True, return_A=True)
                for a_, b_ in ((s_, x), (x, t_)):
                    r = bm(a_, b_, return_U=True, return_A=True)
                    pieces.append((b_.n - a_.n,) + parts(r, b_.n - a_.n))
                Ws, Hs, As = parts(tot, q.n - p.n)
            else:
                if split:
                    x = E.input('x', lo.v + (hi.v - lo.v) / 3)
                    E.assume((x > lo) & (x < hi))
                    p, q = lo, x
                else:
                    p, q = lo, hi
                Ws, Hs, As = parts(bm(p, q, return_U=True, return_A=True), q.n - p.n)
                pieces.append((q.n - p.n, Ws, Hs, As))
            for b in range(As.shape[0]):
                for i in range(m):
                    if split == 'merge':
                        B.prove_eq(E, f'A-diagonal-zero[{b},{i}]', As[b, i, i], dag.ZERO)
                    for j in range(m):
                        if i == j:
                            continue
                        if split == 'merge' and i < j:
                            B.prove_eq(E, f'A-antisymmetric[{b},{i},{j}]', As[b, i, j], dag._neg(As[b, j, i]))
                        sup = dag.support(As[b, i, j])
                        lev = {v for v in sup if is_levy_noise(v, size)}
                        try:
                            lf, const = dag.linear_form(As[b, i, j], lev)
                        except ValueError as ex:
                            E.fail('levy-linear', 'concrete', str(ex)); return
                        # conditional mean given the pieces' (W,H): the part free of Levy noise
                        mean = dag.ZERO
                        for ln, W_, H_, _ in pieces:
                            mean = dag._add(mean, H_[b, i] * W_[b, j] - W_[b, i] * H_[b, j])
                        if len(pieces) == 2:
                            W1, W2 = pieces[0][1], pieces[1][1]
                            mean = dag._add(mean, (W1[b, i] * W2[b, j] - W2[b, i] * W1[b, j]) / lift(2))
                        B.prove_eq(E, f'A-cond-mean[{b},{i},{j}]', const, mean)
                        # each element driven by its own noise pair only
                        own = {nm for nm in lev if nm.endswith(f'_{b}_{i}_{j}') or nm.endswith(f'_{b}_{j}_{i}')}
                        if set(lf) - own:
                            E.fail('A-noise-crosstalk', 'concrete', f'A[{b},{i},{j}] depends on noise {sorted(set(lf) - own)}')
                        var = dag.ZERO
                        for k, cf in lf.items():
                            var = dag._add(var, dag._mul(cf, cf))
                        want = dag.ZERO
                        for ln, W_, H_, _ in pieces:
                            want = dag._add(want, want_var(ln, H_, b, i, j))
                        B.prove_eq(E, f'A-cond-var[{c["levy"]}]', var, want)
        except (Inconclusive, Unsupported):
            raise
        except Exception as e:
            import traceback
            E.fail('crash', 'exception', f"{type(e).__name__}: {e} | {traceback.format_exc()[-500:]}")
        finally:
            del bshim.NOISE_CALLS[:]
    return h


def seedkey_task(_):
    """one-step induction on the REAL _set_spawn_key_and_depth: from arbitrary distinct parents (symbolic non-negative integer
    keys, equal depth) or from the same parent on different sides, the children's (spawn_key, depth) pairs are distinct.
    Together with distinct keys at the root this gives injectivity node -> SeedSequence key at EVERY depth."""
    B.setup()
    E = Engine(max_paths=200, timeout_ms=30000)

    class P:      # a parent as far as _set_spawn_key_and_depth is concerned
        pass

    def child(parent_key, depth, is_left):
        par = P(); par._spawn_key = parent_key; par._depth = depth
        ch = B.bi._Interval.__new__(B.bi._Interval)
        ch._parent = par; ch._is_left = is_left
        B.bi._Interval._set_spawn_key_and_depth(ch)
        return ch._spawn_key, ch._depth

    def h(E):
        k1 = E.input_int('k1', 5, lo=0); k2 = E.input_int('k2', 9, lo=0)
        depth = E.input_int('depth', 3, lo=0)
        for l1 in (True, False):
            for l2 in (True, False):
                a, da = child(k1, depth, l1)
                b, db = child(k2, depth, l2)
                same_parent_side = (k1 == k2).n if l1 == l2 else dag.Node('not', dag.Node('true'))
                keys_equal = (a == b).n if hasattr(a == b, 'n') else (dag.Node('true') if a == b else dag.Node('not', dag.Node('true')))
                # equal child keys (at equal depth) only for the same parent and the same side
                E.prove(f'seed-key-injective[{l1},{l2}]', dag.Node('or', dag.Node('not', keys_equal), same_parent_side))
                E.prove('depth-increments', (da == depth + 1) & (db == depth + 1))
    fails = E.explore(h)
    return dict(kind='seedkey', cfg={}, a=None, b=None, stats=E.stats, wall=0.0, samples=E.path_log[:1],
                failures=[dict(what=f.what, kind=f.kind, inputs={k: str(v) for k, v in f.inputs.items()}, detail=f.detail[:400]) for f in fails[:5]], nfail=len(fails))


def run_one(task):
    kind, cfg, a, b, max_paths, timeout_ms = task
    if kind == 'seedkey':
        return seedkey_task(None)
    B.setup()
    E = Engine(max_paths=max_paths, timeout_ms=timeout_ms)
    t = time.time()
    fails = E.explore(harness(cfg, a, b) if kind == 'law' else levy_harness(cfg, a))
    return dict(kind=kind, cfg=cfg, a=a, b=b, stats=E.stats, wall=time.time() - t, samples=E.path_log[:2],
                failures=[dict(what=f.what, kind=f.kind, inputs={k: str(v) for k, v in f.inputs.items()}, detail=f.detail[:600])
                          for f in fails[:30]], nfail=len(fails))


def tasks_for(tier):
    q = tier == 'quick'
    mp, to = (3000, 60000) if q else (60000, 300000)
    F = Fraction
    T = [
        # single-split lemma: arbitrary parent interval, parent (W,H) ~ N(0, diag(h, h/12)), arbitrary split point
        ('law', dict(levy='space-time', size=(1,), supply_W=True, supply_H=True, sym_ends=True, cache_size=0, pinned=True), 0, 2, mp, to),
        ('law', dict(levy='none', size=(1,), supply_W=True, sym_ends=True, cache_size=None, pinned=True), 0, 2, mp, to),
        # top-level law (generated W, H) + one split, symbolic ends
        ('law', dict(levy='space-time', size=(1,), sym_ends=True, pinned=True), 0, 2, mp, to),
        ('law', dict(levy='davie', size=(2,), sym_ends=True, pinned=True, cache_size=1), 0, 2, mp, to),
        # W-only partitions at symbolic points (deeper trees), symbolic ends / after a symbolic prior query
        ('law', dict(levy='none', size=(1,), supply_W=True, sym_ends=True, cache_size=None), 0, 2, mp, to),
        ('law', dict(levy='none', size=(2,), sym_ends=True, cache_size=1), 0, 2, mp, to),
        ('law', dict(levy='none', size=(1,), cache_size=45), 1, 2, mp, to),
        # deeper tree with H: exact algebraic arithmetic at rational times (symbolic noise) after a prior query
        ('law', dict(levy='foster', size=(1,), cache_size=0, t0=F(-1, 2), t1=F(3, 2), times=[F(-1, 4), F(1, 3), F(1, 1)],
                     prior_times=[[F(0), F(1, 2)]]), 1, 2, mp, to),
        # dyadic-tree mode at a coarse tolerance: the halfway points are ROUNDED to the tolerance grid ([0, 0.5] -> 0.2 | 0.3),
        # so the two children of a node have different lengths and the bridge must use the stored split point (seeded change C04d)
        ('law', dict(levy='none', size=(1,), tol=0.1, halfway=True, t1=Fraction(1, 2)), 0, 2, mp, to),
        ('law', dict(levy='space-time', size=(1,), tol=0.1, halfway=True, t1=Fraction(1, 2), cache_size=1), 0, 2, mp, to),
        ('seedkey', {}, None, None, mp, to),
        ('levy', dict(levy='davie', size=(1, 2)), False, None, mp, to),
        ('levy', dict(levy='foster', size=(1, 2)), False, None, mp, to),
        ('levy', dict(levy='davie', size=(1, 2), sym_ends=True), True, None, mp, to),
        ('levy', dict(levy='foster', size=(2, 2), sym_ends=True), True, None, mp, to),
        ('levy', dict(levy='davie', size=(1, 2)), 'merge', None, mp, to),
        ('levy', dict(levy='foster', size=(1, 2)), 'merge', None, mp, to),
    ]
    if not q:
        T += [
            ('law', dict(levy='none', size=(1,), cache_size=0), 2, 2, mp, to),
            ('law', dict(levy='none', size=(1,), cache_size=45), 1, 3, mp, to),
            ('law', dict(levy='space-time', size=(2,), sym_ends=True, pinned=True, supply_W=True), 0, 2, mp, to),
            ('law', dict(levy='space-time', size=(2,), tol=0.1, halfway=True, t0=Fraction(-3, 10), t1=Fraction(2, 5)), 0, 2, mp, to),
        ]
    return T


def run(ctx):
    ctx.fn('BrownianInterval.__init__', 'BrownianInterval.__call__', '_Interval._increment_and_space_time_levy_area',
           '_Interval._increment_and_levy_area', '_davie_foster_approximation', '_H_to_U', '_Interval._split_exact',
           '_Interval._set_spawn_key_and_depth', '_Interval._randn', '_Interval._randn_levy', '_Interval._loc_inner')
    ctx.stubs += bshim.STUBS
    ctx.bounds = {'partition': '2 adjacent pieces (3 in thorough) at symbolic points', 'prior symbolic queries': '<=1 quick / <=2 thorough',
                  'sample sizes': '(1,), (2,), (1,2), (2,2)', 'end points': 'symbolic T0<T1 for the lemma configurations'}
    ctx.assumptions += ['outputs linear in independent standard normals => Gaussian; the law is its covariance (checked exactly)',
                        'distinct (seed, shape) keys of torch.Generator give independent standard normal streams (documented contract, C-level PRNG)',
                        'supplied end-to-end W ~ N(0, T1-T0), H ~ N(0, (T1-T0)/12) independent (the law a caller would supply for a Brownian path)',
                        'law of arbitrary finite interval sets follows from the partition law and the Chen relations of C03 (stated induction)']
    ctx.outside += ['statistical quality of SeedSequence/Generator streams', 'float rounding']
    tasks = tasks_for(ctx.tier)
    for t, (st, res) in zip(tasks, pmap(run_one, tasks)):
        name = f"{t[0]}|{B.cfg_name(t[1])}|{t[2]}|{t[3]}"
        if st != 'ok':
            ctx.inconc(name, str(res)[:500]); continue
        ctx.paths += res['stats']['paths']; ctx.queries += res['stats']['queries']; ctx.solver_s += res['stats']['solver_s']
        ctx.validated += res['stats']['paths']
        ctx.sample({'scenario': name, 'paths': res['stats']['paths'], 'queries': res['stats']['queries'], 'example': res['samples'][:1]})
        if not res['nfail']:
            ctx.ok(name, f"{res['stats']['paths']} paths, {res['stats']['queries']} queries, {res['wall']:.1f}s"); continue
        seen = set()
        for f in res['failures']:
            what = f['what'].split('[')[0] if not f['what'].startswith('cov(') else 'cov(' + ','.join(x.split('[')[0][:1] for x in f['what'][4:-1].split(',')) + ')'
            if what in seen:
                continue
            seen.add(what)
            if f['kind'] == 'unknown':
                ctx.inconc(f"{name}|{what}", f"solver unknown: {f['detail'][:200]}"); continue
            sig = f"{t[0]}|{B.cfg_name(t[1])}|{what}"
            ctx.violation(sig, f"{f['what']} fails: {f['detail'][:200]}",
                          replay=dict(kind=t[0], cfg=_jsonable(t[1]), a=t[2], b=t[3], inputs=f['inputs'], what=what, full=f['what']))
    # twin: Var W = 2 (t-s) must be refuted
    ctx.twin('twin: Var W(s,t) == 2 (t-s) must fail', twin())


def _jsonable(cfg):
    import json
    return json.loads(json.dumps(cfg, default=str))


def twin():
    B.setup()
    E = Engine(max_paths=20)

    def h(E):
        bm, top, lo, hi = B.make(E, dict(levy='none', size=(1,)))
        s = E.input('s', Fraction(1, 4)); t = E.input('t', Fraction(3, 4))
        E.assume((s >= lo) & (t <= hi) & (s < t))
        w = bm(s, t).sym[0]
        lf, _ = dag.linear_form(w, B.noise_basis(w))
        B.prove_eq(E, 'twin', cov(lf, lf, top._start.n, top._end.n), lift(2) * (t.n - s.n))
    return any(f.kind == 'sat' for f in E.explore(h))


# ---------------------------------------------------------------- replay: exact linear map via labelled unit noise
def replay(data):
    """run the pristine code at the counterexample's times with 2e5 independent replicas (a leading replica axis in the
    sample shape) and compare the empirical covariance with the Brownian law at 8 standard errors."""
    import torch
    from torchsde._brownian import brownian_interval as rbi
    r = data['replay']
    if r['kind'] == 'seedkey':
        # build deep trees through the public API (a fixed-step sweep with a dt hint gives chains of right children) and look
        # for two different nodes with the same noise seeds
        import torchsde
        bad = []
        for n in (72, 150):
            bm = torchsde.BrownianInterval(0., 1., size=(1,), dtype=torch.float64, entropy=5, dt=1.0 / n)
            for k in range(n):
                bm(k / n, (k + 1) / n)
            seen = {}
            for nd in B.nodes_of(bm):
                if nd._midway is not None:
                    key = (int(nd._W_seed), int(nd._H_seed))
                    if key in seen:
                        bad.append(f'nodes [{seen[key]._start:.4f},{seen[key]._end:.4f}] and [{nd._start:.4f},{nd._end:.4f}] share noise seeds {key}')
                    seen[key] = nd
        print('replay C04 seeds:', bad[:3] or 'all node seeds distinct')
        return bool(bad)
    cfg = dict(B.DEFAULT); cfg.update(r['cfg'])
    inp = {k: float(Fraction(v)) for k, v in r['inputs'].items()}
    size = tuple(cfg['size'])
    t0 = inp.get('T0', float(Fraction(cfg['t0']))); t1 = inp.get('T1', float(Fraction(cfg['t1'])))
    levy = cfg['levy']
    have_H = levy in HAVE_H
    # K independent replicas of the whole experiment are obtained by prepending a replica axis to the sample shape
    K = 200000
    real = rbi._randn
    bad = []
    try:
        kw = dict(entropy=cfg['entropy'], levy_area_approximation=levy, cache_size=cfg['cache_size'],
                  dt=(inp.get('DT') if cfg['dt'] == 'sym' else cfg['dt']), tol=cfg['tol'], halfway_tree=cfg['halfway'])
        W0 = H0 = None
        g = torch.Generator().manual_seed(99)
        if cfg['supply_W']:
            W0 = torch.randn((K,) + size, dtype=torch.float64, generator=g) * (t1 - t0) ** 0.5
        if cfg['supply_H']:
            H0 = torch.randn((K,) + size, dtype=torch.float64, generator=g) * ((t1 - t0) / 12) ** 0.5
        bm = rbi.BrownianInterval(t0=t0, t1=t1, size=(K,) + size if (W0 is None and H0 is None) else None, dtype=torch.float64, W=W0, H=H0, **kw)
        # the replica axis must not be treated as part of the sample shape by the Levy-area code: it only prepends batch dims
        if r['kind'] == 'law':
            q = {'return_U': True} if have_H else {}
            for k in range(r['a']):
                if cfg.get('prior_times'):
                    pa, pb = [float(Fraction(v)) for v in cfg['prior_times'][k]]
                else:
                    pa, pb = inp[f'p{k}a'], inp[f'p{k}b']
                bm(pa, pb, **q)
            if cfg.get('pinned'):
                pts = [t0, inp['x1'], t1]
            elif cfg.get('times'):
                pts = [float(Fraction(v)) for v in cfg['times']]
            elif cfg['tol']:
                from .c03 import _ndigits
                pts = [inp[f'k{i}'] / 10 ** _ndigits(cfg['tol']) for i in range(r['b'] + 1)]
            else:
                pts = [inp[f'x{i}'] for i in range(r['b'] + 1)]
            cols = []; labels = []; want_var = []
            for i, (p, qq) in enumerate(zip(pts[:-1], pts[1:])):
                res = bm(p, qq, **q)
                W = res[0] if have_H else res
                cols.append(W.reshape(K, -1)); labels += [f'W{i}[{e}]' for e in range(W.reshape(K, -1).shape[1])]
                want_var += [qq - p] * W.reshape(K, -1).shape[1]
                if have_H:
                    H = res[1] / (qq - p) - W / 2
                    cols.append(H.reshape(K, -1)); labels += [f'H{i}[{e}]' for e in range(H.reshape(K, -1).shape[1])]
                    want_var += [(qq - p) / 12] * H.reshape(K, -1).shape[1]
            X = torch.cat(cols, dim=1)
            C = (X.T @ X) / K
            sd = torch.tensor(want_var).sqrt()
            for i in range(C.shape[0]):
                for j in range(i, C.shape[0]):
                    want = want_var[i] if i == j else 0.0
                    se = float(sd[i] * sd[j]) * (2.0 if i == j else 1.0) ** 0.5 / K ** 0.5
                    if abs(float(C[i, j]) - want) > 8 * se + 1e-12:
                        bad.append(f'cov({labels[i]},{labels[j]})={float(C[i, j]):.5g} want {want:.5g} (+-{se:.2g})')
            if cfg['supply_W']:
                res = bm(t0, t1, **q); W = res[0] if have_H else res
                if not torch.equal(W, W0):
                    bad.append('supplied W not returned over the whole interval')
        elif r['a'] == 'merge':
            x = inp.get('x', t0 + (t1 - t0) / 2); s_ = inp.get('s', t0 + (t1 - t0) / 4); t_ = inp.get('t', t0 + (t1 - t0) * 3 / 4)
            if not (t0 < s_ < x < t_ < t1):
                x, s_, t_ = t0 + (t1 - t0) / 2, t0 + (t1 - t0) / 4, t0 + (t1 - t0) * 3 / 4
            bm(t0, x)
            W, U, A = bm(s_, t_, return_U=True, return_A=True)
            ps = []
            for a_, b_ in ((s_, x), (x, t_)):
                Wk, Uk, Ak = bm(a_, b_, return_U=True, return_A=True)
                ps.append((b_ - a_, Wk, Uk / (b_ - a_) - Wk / 2))
            asym = float((A + A.transpose(-1, -2)).abs().max())
            if asym > 1e-12:
                bad.append(f'merged A is not antisymmetric (max |A + A^T| = {asym:.3g})')
            mean = sum(Hk.unsqueeze(-1) * Wk.unsqueeze(-2) - Wk.unsqueeze(-1) * Hk.unsqueeze(-2) for _, Wk, Hk in ps)
            W1, W2 = ps[0][1], ps[1][1]
            mean = mean + 0.5 * (W1.unsqueeze(-1) * W2.unsqueeze(-2) - W2.unsqueeze(-1) * W1.unsqueeze(-2))
            R = A - mean
            m = size[-1]
            for i in range(m):
                for j in range(m):
                    if i == j:
                        continue
                    rr = R[..., i, j].reshape(K, -1)[:, 0]
                    want = 0
                    for hk, Wk, Hk in ps:
                        Hi = Hk[..., i].reshape(K, -1)[:, 0]; Hj = Hk[..., j].reshape(K, -1)[:, 0]
                        want = want + (hk * hk / 12 + 0 * Hi if levy == 'davie' else hk * hk / 20 + hk / 5 * (Hi ** 2 + Hj ** 2))
                    ratio = float((rr ** 2).mean() / want.mean())
                    if abs(ratio - 1) > 0.03:
                        bad.append(f'Var(merged A[{i},{j}] | pieces) / prescribed = {ratio:.4f}')
                    if abs(float(rr.mean())) > 8 * float(want.mean()) ** 0.5 / K ** 0.5:
                        bad.append(f'conditional mean of merged A[{i},{j}] off by {float(rr.mean()):.3g}')
        else:
            p, qq = (t0, inp['x']) if r['a'] else (t0, t1)
            W, U, A = bm(p, qq, return_U=True, return_A=True)
            h = qq - p
            H = U / h - W / 2
            R = A - (H.unsqueeze(-1) * W.unsqueeze(-2) - W.unsqueeze(-1) * H.unsqueeze(-2))
            m = size[-1]
            for i in range(m):
                for j in range(m):
                    if i == j:
                        continue
                    rr = R[..., i, j].reshape(K, -1)[:, 0]
                    Hi = H[..., i].reshape(K, -1)[:, 0]; Hj = H[..., j].reshape(K, -1)[:, 0]
                    if levy == 'davie':
                        want = h * h / 12 + 0 * Hi
                    else:
                        want = h * h / 20 + h / 5 * (Hi ** 2 + Hj ** 2)
                    ratio = float((rr ** 2).mean() / want.mean())
                    if abs(ratio - 1) > 0.03:
                        bad.append(f'Var(A[{i},{j}] - (HxW - WxH) | W,H) / prescribed = {ratio:.4f}')
                    if abs(float(rr.mean())) > 8 * float(want.mean()) ** 0.5 / K ** 0.5:
                        bad.append(f'conditional mean of A[{i},{j}] off by {float(rr.mean()):.3g}')
    except Exception as e:
        bad.append(f'crash {type(e).__name__}: {e}')
    finally:
        rbi._randn = real
    print('replay C04:', bad or 'law confirmed numerically')
    return bool(bad)
