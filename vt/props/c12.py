"""C12 - outputs lie on one dt-grid trajectory: real BaseSDESolver.integrate + real interp.linear_interp, concolic ts/dt."""
import time
from fractions import Fraction

import numpy as np
import torch

from .. import dag, symx, loopmodel, brownian as B
from ..core import pmap, Inconclusive
from ..dag import Node, lift
from ..symtorch import Unsupported
from ..symx import Engine, CR


def grid_checks(E, solver, ts, dt, ys, y0):
    """assertions on one run of integrate (fixed step)"""
    log = solver.log
    if not log:
        E.fail('no-steps', 'concrete', 'no step taken'); return
    last = ts[-1]
    for k, st in enumerate(log):
        E.prove(f'step{k}-start-on-grid', st['t0'] == ts[0] + k * dt)
        tgt = ts[0] + (k + 1) * dt
        want = Node('ite', Node('gt', last.n, tgt.n), tgt.n, last.n)
        B.prove_eq(E, f'step{k}-end-clipped', st['t1'].n, want)
        if k:
            E.prove(f'step{k}-contiguous', st['t0'] == log[k - 1]['t1'])
            if st['y0'] is not log[k - 1]['y1']:
                E.fail(f'step{k}-state-chain', 'concrete', 'step did not start from the previous grid state')
            if st['extra0'] is not log[k - 1]['extra1']:
                E.fail(f'step{k}-extra-chain', 'concrete', 'extra solver state not chained')
        else:
            if st['y0'] is not y0:
                E.fail('step0-state', 'concrete', 'first step did not start from y0')
    E.prove('ends-at-ts[-1]', log[-1]['t1'] == last)
    # outputs
    if ys.shape[0] != len(ts):
        E.fail('output-count', 'concrete', f'{ys.shape[0]} outputs for {len(ts)} times'); return
    for x, y in zip(B.flat(ys[0]), B.flat(y0)):
        if x is not y:
            E.fail('ys[0]-is-y0', 'concrete', 'first output is not y0 itself')
    for i in range(1, len(ts)):
        t = ts[i]
        # locate the step containing ts[i] on this path (concretely), then prove containment and the interpolation formula
        k = None
        for kk, st in enumerate(log):
            with symx.no_branch():
                inside = bool(st['t0'] < t) and bool(t <= st['t1'])
            if inside:
                k = kk; break
        if k is None:
            E.fail(f'out{i}-located', 'concrete', 'output time not inside any step'); continue
        st = log[k]
        E.prove(f'out{i}-inside-step', (st['t0'] < t) & (t <= st['t1']))
        ya = st['y0'].sym.reshape(-1)[0]; yb = st['y1'].sym.reshape(-1)[0]
        got = ys[i].sym.reshape(-1)[0]
        want = ((st['t1'].n - t.n) * ya + (t.n - st['t0'].n) * yb) / (st['t1'].n - st['t0'].n)
        B.prove_eq(E, f'out{i}-linear-interpolant', got, want)
        # at a grid time the output IS the grid state
        at_grid = Node('eq', t.n, st['t1'].n)
        E.prove(f'out{i}-grid-state', Node('or', Node('not', at_grid), Node('eq', got, yb)))


def harness(nout, max_steps, variant):
    def h(E):
        try:
            ts = [E.input(f'ts{i}', Fraction(i, 2)) for i in range(nout)]
            dt = E.input('dt', Fraction(2, 5))
            E.assume(dt > 0)
            for a, b in zip(ts[:-1], ts[1:]):
                E.assume(a < b)
            E.assume(ts[-1] - ts[0] <= max_steps * dt)
            y0 = loopmodel.fresh_state('y0', value=0.3)
            s = loopmodel.make_stub_solver(dt, False, None)
            ys, extra = s.integrate(y0, ts, ())
            grid_checks(E, s, ts, dt, ys, y0)
            if variant == 'invariance' and nout >= 3:
                # drop / move an intermediate output time: same grid, same values at the common times
                for drop in range(1, nout - 1):
                    ts2 = ts[:drop] + ts[drop + 1:]
                    s2 = loopmodel.make_stub_solver(dt, False, None)
                    ys2, _ = s2.integrate(y0, ts2, ())
                    if len(s2.log) != len(s.log):
                        E.fail('invariance-steps', 'concrete', 'number of steps changed when an output time was removed')
                        continue
                    for a, b in zip(s.log, s2.log):
                        E.prove('invariance-grid', (a['t0'] == b['t0']) & (a['t1'] == b['t1']))
                    keep = [i for i in range(nout) if i != drop]
                    for j, i in enumerate(keep):
                        x = ys[i].sym.reshape(-1)[0]; y = ys2[j].sym.reshape(-1)[0]
                        if x is not y:
                            B.prove_eq(E, f'invariance-out{i}', x, y)
                # an extra time moved anywhere inside the horizon
                tm = E.input('tm', Fraction(1, 3))
                E.assume((tm > ts[0]) & (tm < ts[-1]))
                pos = None
                with symx.no_branch():
                    for i in range(nout - 1):
                        if bool(ts[i] < tm) and bool(tm < ts[i + 1]):
                            pos = i + 1
                if pos is not None:
                    E.assume((ts[pos - 1] < tm) & (tm < ts[pos]))
                    ts3 = ts[:pos] + [tm] + ts[pos:]
                    s3 = loopmodel.make_stub_solver(dt, False, None)
                    ys3, _ = s3.integrate(y0, ts3, ())
                    if len(s3.log) != len(s.log):
                        E.fail('invariance-steps', 'concrete', 'number of steps changed when an output time was added')
                    else:
                        for i in range(nout):
                            j = i if i < pos else i + 1
                            x = ys[i].sym.reshape(-1)[0]; y = ys3[j].sym.reshape(-1)[0]
                            if x is not y:
                                B.prove_eq(E, f'invariance-add-out{i}', x, y)
        except (Inconclusive, Unsupported):
            raise
        except Exception as e:
            import traceback
            E.fail('crash', 'exception', f"{type(e).__name__}: {e} | {traceback.format_exc()[-500:]}")
    return h


def run_one(task):
    nout, max_steps, variant, max_paths = task
    E = Engine(max_paths=max_paths, timeout_ms=60000)
    t = time.time()
    fails = E.explore(harness(nout, max_steps, variant))
    return dict(task=task, stats=E.stats, wall=time.time() - t, samples=E.path_log[:2],
                failures=[dict(what=f.what, kind=f.kind, inputs={k: str(v) for k, v in f.inputs.items()}, detail=f.detail[:500])
                          for f in fails[:20]], nfail=len(fails))


def tasks_for(tier):
    if tier == 'quick':
        return [(2, 3, 'grid', 2000), (3, 3, 'invariance', 4000), (4, 2, 'grid', 4000)]
    return [(2, 6, 'grid', 20000), (3, 4, 'invariance', 40000), (4, 4, 'invariance', 80000), (5, 3, 'grid', 80000)]


def shape_sweep(ctx):
    """finite concrete sweep through the real sdeint: shape (len(ts), batch, state) in y0's dtype, tensor or list ts"""
    import torchsde
    from .. import sdes
    n = 0
    bad = []
    for st, methods in sdes.FORWARD_METHODS.items():
        for method in methods:
            from torchsde._core import methods as M
            cls = M.select(method, st)
            for nt in cls.noise_types:
                for dtype in (torch.float32, torch.float64):
                    got = {}
                    for as_list in (False, True):
                        mk = sdes.Maker(symbolic=False, seed=3, dtype=dtype)
                        d, m = 2, (2 if nt in ('additive', 'general') else (1 if nt == 'scalar' else 2))
                        sde = sdes.PolySDE(mk, st, nt, d=d, m=m, degt=1, degy=1)
                        y0 = torch.full((3, d), 0.1, dtype=dtype)
                        ts = [0.0, 0.13, 0.2, 0.41]
                        tsa = ts if as_list else torch.tensor(ts, dtype=dtype)
                        bm = torchsde.BrownianInterval(0.0, 0.41, size=(3, m), dtype=dtype, entropy=5,
                                                       levy_area_approximation=sdes.levy_for(method))
                        # the library default dtype (float32) is in force here whatever the harness uses elsewhere: a list of
                        # times must be read in y0's dtype, not in the default one
                        old_default = torch.get_default_dtype()
                        torch.set_default_dtype(torch.float32)
                        try:
                            ys = torchsde.sdeint(sde, y0, tsa, bm=bm, method=method, dt=0.1)
                        finally:
                            torch.set_default_dtype(old_default)
                        n += 1
                        got[as_list] = ys
                        if tuple(ys.shape) != (len(ts), 3, d) or ys.dtype != dtype or not torch.equal(ys[0], y0):
                            bad.append((st, method, nt, str(dtype), as_list, tuple(ys.shape), str(ys.dtype)))
                    if got[True].shape == got[False].shape and not torch.equal(got[True], got[False]):
                        bad.append((st, method, nt, str(dtype), 'list-vs-tensor values differ', float((got[True] - got[False]).abs().max()), str(got[True].dtype)))
    return n, bad


def run(ctx):
    ctx.fn('BaseSDESolver.integrate', 'interp.linear_interp', 'sdeint (shape sweep)', 'check_contract (shape sweep)')
    ctx.stubs += ['solver.step -> fresh symbolic state per call (arguments recorded)', 'ts: Python list of concolic reals']
    ctx.bounds = {'output times': '<=4 (quick) / <=5', 'steps': '<=3 (quick) / <=6 (ts[-1]-ts[0] <= max_steps*dt)',
                  'dt, ts': 'arbitrary reals, strictly increasing, dt>0'}
    ctx.assumptions += ['real arithmetic: k additions of dt equal k*dt', 'step is treated as an arbitrary function of its arguments']
    ctx.outside += ['float drift of the accumulated current time', 'more steps/outputs than the bound (loop body is uniform)']
    tasks = tasks_for(ctx.tier)
    for t, (st, res) in zip(tasks, pmap(run_one, tasks)):
        name = f"nout={t[0]} max_steps={t[1]} {t[2]}"
        if st != 'ok':
            ctx.inconc(name, str(res)[:500]); continue
        ctx.paths += res['stats']['paths']; ctx.queries += res['stats']['queries']; ctx.solver_s += res['stats']['solver_s']
        ctx.sample({'scenario': name, 'paths': res['stats']['paths'], 'example': res['samples'][:1]})
        if not res['nfail']:
            ctx.ok(name, f"{res['stats']['paths']} paths, {res['stats']['queries']} queries, {res['wall']:.1f}s"); continue
        seen = set()
        for f in res['failures']:
            what = ''.join(c for c in f['what'] if not c.isdigit())
            if what in seen:
                continue
            seen.add(what)
            if f['kind'] == 'unknown':
                ctx.inconc(f"{name}|{what}", f['detail'][:200]); continue
            ctx.violation(f"integrate|{what}", f"{f['what']}: {f['detail'][:200]}",
                          replay=dict(nout=t[0], inputs=f['inputs'], what=what))
    n, bad = shape_sweep(ctx)
    ctx.validated += n
    if bad:
        ctx.violation('shape-dtype', f'sdeint output shape/dtype wrong for {bad[:3]}', replay=dict(shape=True))
    else:
        ctx.ok(f'shape/dtype sweep over {n} real sdeint calls')
    # twin: claiming that steps end at output times must be refuted
    E = Engine(max_paths=200)

    def tw(E):
        ts = [E.input(f'ts{i}', Fraction(i, 2)) for i in range(3)]
        dt = E.input('dt', Fraction(2, 5)); E.assume(dt > 0)
        for a, b in zip(ts[:-1], ts[1:]): E.assume(a < b)
        E.assume(ts[-1] - ts[0] <= 3 * dt)
        s = loopmodel.make_stub_solver(dt, False, None)
        s.integrate(loopmodel.fresh_state('y0'), ts, ())
        E.prove('twin', s.log[0]['t1'] == ts[1])
    ctx.twin('twin: "first step ends at ts[1]" must fail', any(f.kind in ('sat', 'concrete') for f in E.explore(tw)))
    ctx.paths += E.stats['paths']; ctx.queries += E.stats['queries']


# ---------------------------------------------------------------- replay with the real sdeint and a recording Brownian proxy
def replay(data):
    import torchsde
    r = data['replay']
    if r.get('shape'):
        n, bad = shape_sweep(None)
        print('replay C12 shapes:', bad[:3])
        return bool(bad)
    inp = {k: float(Fraction(v)) for k, v in r['inputs'].items()}
    nout = r['nout']
    ts = [inp[f'ts{i}'] for i in range(nout)]
    dt = inp['dt']
    if dt <= 0 or any(a >= b for a, b in zip(ts[:-1], ts[1:])):
        print('replay C12: counterexample violates the preconditions (not a reproduction)')
        return False

    class SDE(torch.nn.Module):
        noise_type = 'diagonal'; sde_type = 'ito'
        def f(self, t, y): return torch.sin(3 * y) + t
        def g(self, t, y): return 0.3 + 0.1 * torch.cos(y)

    class Rec(torchsde.BaseBrownian):
        def __init__(self, bm): self.bm = bm; self.q = []
        def __call__(self, ta, tb=None, return_U=False, return_A=False):
            self.q.append((float(ta), float(tb))); return self.bm(ta, tb, return_U=return_U, return_A=return_A)
        shape = property(lambda s: s.bm.shape); dtype = property(lambda s: s.bm.dtype); device = property(lambda s: s.bm.device)
        levy_area_approximation = property(lambda s: s.bm.levy_area_approximation)
        def __repr__(self): return 'Rec'
    bad = []
    y0 = torch.tensor([[0.2]], dtype=torch.float64)
    lo, hi = min(ts) - 1, max(ts) + 1

    def solve(tt):
        bm = Rec(torchsde.BrownianInterval(lo, hi, size=(1, 1), dtype=torch.float64, entropy=11))
        ys = torchsde.sdeint(SDE(), y0, tt, bm=bm, method='euler', dt=dt)
        return ys, bm.q
    try:
        ys, q = solve(ts)
        # expected grid
        k = 0; grid = []
        t = ts[0]
        while t < ts[-1] - 1e-15:
            nt = min(ts[0] + (k + 1) * dt, ts[-1]); grid.append((t, nt)); t = nt; k += 1
        if len(q) != len(grid) or any(abs(a - c) > 1e-9 or abs(b - d) > 1e-9 for (a, b), (c, d) in zip(q, grid)):
            bad.append(f'grid: queries {q[:6]} expected {grid[:6]}')
        # independent reference: Euler-Maruyama by hand on the grid, with the increments of the same Brownian object
        sde = SDE()
        ref_bm = torchsde.BrownianInterval(lo, hi, size=(1, 1), dtype=torch.float64, entropy=11)
        gts = [ts[0]]
        ref = [y0]
        for (a, b) in grid:
            yk = ref[-1]
            ta, tb = torch.tensor(a, dtype=torch.float64), torch.tensor(b, dtype=torch.float64)
            ref.append(yk + sde.f(ta, yk) * (b - a) + sde.g(ta, yk) * ref_bm(a, b))
            gts.append(b)
        for i, t in enumerate(ts):
            j = max(jj for jj, g in enumerate(gts) if g <= t + 1e-12)
            if abs(gts[j] - t) < 1e-12:
                want = ref[j]
            else:
                a, b = gts[j], gts[j + 1]
                want = ((b - t) * ref[j] + (t - a) * ref[j + 1]) / (b - a)
            if float((ys[i] - want).abs().max()) > 1e-9:
                bad.append(f'output {i} at t={t}: {ys[i].item()} expected {want.item()}')
        if not torch.equal(ys[0], y0):
            bad.append('ys[0] != y0')
        if nout >= 3:
            ys2, _ = solve(ts[:1] + ts[2:])
            if float((ys2[1:] - ys[2:]).abs().max()) > 1e-12:
                bad.append('removing an intermediate output time changed later outputs')
        if 'tm' in inp and ts[0] < inp['tm'] < ts[-1] and all(abs(inp['tm'] - t) > 1e-12 for t in ts):
            ts3 = sorted(ts + [inp['tm']])
            ys3, _ = solve(ts3)
            keep = [i for i, t in enumerate(ts3) if t != inp['tm']]
            if float((ys3[keep] - ys).abs().max()) > 1e-12:
                bad.append('adding an intermediate output time changed the outputs at the other times')
    except Exception as e:
        bad.append(f'crash {type(e).__name__}: {e}')
    print('replay C12:', bad or 'grid / interpolation confirmed numerically')
    return bool(bad)
