"""C16 - equivalent SDE interfaces give identical solutions; derived operators are exact (E1).
(a) the same polynomial SDE exposed through {f,g}, {f_and_g}, {f,g_prod}, {f_and_g_prod}, {f_and_g, g_prod}, and renamed
through `names`: for every solver that accepts the combination the output DAG is IDENTICAL to the {f,g} baseline; a solver
that needs a method the user did not supply raises an explicit RuntimeError / ValueError (anything else is a violation).
(b) ForwardSDE's derived operators equal their mathematical definitions (oracle from dag.diff of the traced g), z3."""
import numpy as np
import torch

from .. import dag, sdes, e1
from ..core import pmap
from ..dag import ZERO
from ..symtorch import validate

VARIANTS = ['f_and_g', 'f+g_prod', 'f_and_g_prod', 'f_and_g+g_prod', 'renamed', 'all']


def expose(base, variant):
    nt = base.noise_type

    def prod(g, v):
        return g * v if nt == 'diagonal' else torch.bmm(g, v.unsqueeze(-1)).squeeze(dim=-1)

    class V(torch.nn.Module):
        sde_type = base.sde_type
        noise_type = nt
    v = V()
    v.base = base
    if variant in ('f+g', 'all'):
        v.f = base.f; v.g = base.g
    if variant in ('f_and_g', 'f_and_g+g_prod', 'all'):
        v.f_and_g = lambda t, y: (base.f(t, y), base.g(t, y))
    if variant in ('f+g_prod',):
        v.f = base.f
    if variant in ('f+g_prod', 'f_and_g+g_prod', 'all'):
        v.g_prod = lambda t, y, w: prod(base.g(t, y), w)
    if variant in ('f_and_g_prod', 'all'):
        v.f_and_g_prod = lambda t, y, w: (base.f(t, y), prod(base.g(t, y), w))
    if variant == 'renamed':
        v.my_drift = base.f; v.my_diffusion = base.g
    return v


def scenario(task):
    import torchsde
    st, method, nt, opts, d, m = task
    mm = e1.noise_dim(nt, d, m)
    ts = torch.tensor([0.0, 0.13, 0.2], dtype=torch.float64)

    def solve(variant):
        mk = sdes.Maker(symbolic=True, seed=71)
        base = sdes.PolySDE(mk, st, nt, d=d, m=mm, degt=1, degy=2)
        bm = sdes.KeyedBM(mk, 1, mm, levy=sdes.levy_for(method))
        y0 = mk('y0', (1, d), values=0.3 + 0.1 * np.arange(d).reshape(1, d))
        names = {'drift': 'my_drift', 'diffusion': 'my_diffusion'} if variant == 'renamed' else None
        ys = torchsde.sdeint(expose(base, variant), y0, ts, bm=bm, method=method, dt=0.1, options=dict(opts), names=names)
        validate(ys, mk.env, 1e-8)
        return ys
    ref = solve('f+g')
    res = []
    simp = {}
    for variant in VARIANTS:
        try:
            ys = solve(variant)
        except (RuntimeError, ValueError) as e:
            explicit = 'has not been provided' in str(e) or 'must define' in str(e) or 'Cannot infer' in str(e) or 'required' in str(e)
            res.append((variant, 'explicit-error' if explicit else f'unexpected {type(e).__name__}: {str(e)[:120]}'))
            continue
        except Exception as e:
            res.append((variant, f'unexpected {type(e).__name__}: {str(e)[:120]}'))
            continue
        same = all(a is b or dag.ieee_simplify(a, simp) is dag.ieee_simplify(b, simp) for a, b in zip(e1.flat_nodes(ys), e1.flat_nodes(ref)))
        bits = torch.equal(ys.elem, ref.elem)
        res.append((variant, 'identical' if (same and bits) else ('different-bits' if not bits else 'different-operations')))
    return dict(task=task, results=res)


def operators(task):
    """derived operators vs definitions"""
    from torchsde._core import base_sde
    nt, d, m, nb = task
    mm = e1.noise_dim(nt, d, m)
    mk = sdes.Maker(symbolic=True, seed=73)
    base = sdes.PolySDE(mk, 'stratonovich', nt, d=d, m=mm, degt=1, degy=2)
    Zc = e1.Z()
    bad = []
    n = 0
    t = mk('t', (), values=0.3)
    y = mk('y', (nb, d), values=0.3 + 0.1 * np.arange(nb * d).reshape(nb, d))
    v = mk('v', (nb, mm), values=0.2 + 0.1 * np.arange(nb * mm).reshape(nb, mm))
    w = mk('w', (nb, mm), values=-0.3 + 0.2 * np.arange(nb * mm).reshape(nb, mm))
    gall = base.g(t, y).sym
    Gs = []
    for b in range(nb):
        g = gall[b]
        G = np.empty((d, mm), dtype=object)
        for i in range(d):
            for j in range(mm):
                G[i, j] = (g[i] if i == j else ZERO) if nt == 'diagonal' else g[i, j]
        Gs.append(G)
    yns = [[f'y_{b}_{k}' for k in range(d)] for b in range(nb)]

    def S(terms):
        tot = ZERO
        for x in terms:
            tot = dag._add(tot, x)
        return tot

    def check(label, got, want):
        nonlocal n
        for k, (a, b) in enumerate(zip(got, want)):
            r, model = Zc.equal(a, b)
            n += 1
            if r != 'unsat':
                bad.append((f'{label}[{k}]', r, model))
    for fast in (False, True):
        fs = base_sde.ForwardSDE(base, fast_dg_ga_jvp_column_sum=fast)
        gp = fs.g_prod(t, y, v)
        validate(gp, mk.env, 1e-8)
        want_gp = [S(dag._mul(Gs[b][i, j], v.sym[b, j]) for j in range(mm)) for b in range(nb) for i in range(d)]
        check('g_prod', e1.flat_nodes(gp), want_gp)
        if nt != 'general':
            gp2, gdg = fs.g_prod_and_gdg_prod(t, y, v, w)
            want = [S(dag._mul(dag._mul(Gs[b][l, j], dag.diff(Gs[b][i, j], yns[b][l])), w.sym[b, j]) for j in range(mm) for l in range(d))
                    for b in range(nb) for i in range(d)]
            if nt == 'additive':
                got = [ZERO] * (d * nb) if not torch.is_tensor(gdg) else e1.flat_nodes(gdg)
            else:
                validate(gdg, mk.env, 1e-8)
                got = e1.flat_nodes(gdg)
            check('gdg_prod', got, want)
            check('g_prod (from g_prod_and_gdg_prod)', e1.flat_nodes(gp2), want_gp)
        if nt == 'general':
            Ax = mk('Ax', (nb, mm, mm), values=0.1 * np.arange(nb * mm * mm).reshape(nb, mm, mm))
            A = Ax - Ax.transpose(-1, -2)
            out = fs.dg_ga_jvp_column_sum(t, y, A)
            validate(out, mk.env, 1e-8)
            want = [S(dag._mul(dag._mul(dag.diff(Gs[b][i, l], yns[b][j]), Gs[b][j, k]), A.sym[b][k, l]) for j in range(d) for k in range(mm) for l in range(mm))
                    for b in range(nb) for i in range(d)]
            check(f'dg_ga_jvp_column_sum_v{2 if fast else 1}', e1.flat_nodes(out), want)
    return dict(task=task, bad=bad[:3], identities=n, queries=Zc.queries, solver_s=Zc.solver_s)


def tasks_for(tier):
    T = [(st, method, nt, opts, 2 if tier != 'quick' else 1, 2) for st, method, nt, opts in e1.all_forward_configs()]
    return T


def needs(method, opts):
    """which variants a solver can run with (from the solver sources): others must fail explicitly"""
    return None


def run(ctx):
    ctx.fn('sdeint', 'check_contract', 'RenameMethodsSDE', 'ForwardSDE.__init__ (method registration)', 'ForwardSDE.f_default / g_default / f_and_g_default',
           'ForwardSDE.g_prod_default / f_and_g_prod_default1 / f_and_g_prod_default2 / prod_*', 'ForwardSDE.g_prod_and_gdg_prod_default / _diagonal / _additive',
           'ForwardSDE.dg_ga_jvp_column_sum_v1 / _v2', 'misc.jvp / vjp / batch_mvp')
    ctx.stubs.append('Brownian motion: stub keyed by interval')
    ctx.bounds = {'interface variants': ['f+g (baseline)'] + VARIANTS, 'solvers': 'every accepted (sde_type, method, noise_type, grad_free)', 'steps': '2 + interpolated output',
                  'derived operators': 'd=2, m=2 (and m=3 for general), batch 2, all four noise types, both dg_ga_jvp implementations'}
    ctx.assumptions += ['user-supplied g_prod / f_and_g_prod are written with the same kernels the library uses (g*v, bmm)',
                        'DAG comparison modulo 1*x, 0*x, x+0 (exact for finite floats)']
    ctx.outside += ['sizes above the bound']
    tasks = tasks_for(ctx.tier)
    nid = 0
    for t, (st_, res) in zip(tasks, pmap(scenario, tasks)):
        gf = ',grad_free' if t[3].get('grad_free') else ''
        name = f"{t[0]},{t[1]},{t[2]}{gf}"
        if st_ != 'ok':
            ctx.inconc(name, str(res)[:500]); continue
        ctx.paths += 1 + len(res['results']); ctx.validated += 1 + len(res['results'])
        badv = [(v, o) for v, o in res['results'] if o not in ('identical', 'explicit-error')]
        nid += sum(1 for v, o in res['results'] if o == 'identical')
        if not badv:
            ctx.ok(name, ', '.join(f'{v}:{o}' for v, o in res['results'])); continue
        v, o = badv[0]
        ctx.violation(f"{t[0]},{t[1]},{t[2]}{gf}|interface|{v}", f"interface variant {v}: {o}", replay=dict(kind='interface', task=[t[0], t[1], t[2], t[3], t[4], t[5]], variant=v))
    ctx.sample({'solver configurations': len(tasks), 'variant runs identical to the baseline': nid})
    ctx.twin('twin: at least one variant run must end in the explicit missing-method error and one must be identical', nid > 0)
    ot = [('diagonal', 2, 2, 2), ('scalar', 2, 2, 2), ('additive', 2, 2, 2), ('general', 2, 2, 2), ('general', 2, 3, 2)]
    for t, (st_, res) in zip(ot, pmap(operators, ot)):
        name = f"derived operators noise={t[0]} d={t[1]} m={t[2]} batch={t[3]}"
        if st_ != 'ok':
            ctx.inconc(name, str(res)[:500]); continue
        ctx.paths += 1; ctx.queries += res['queries']; ctx.solver_s += res['solver_s']
        if not res['bad']:
            ctx.ok(name, f"{res['identities']} identities"); continue
        n, r, mdl = res['bad'][0]
        if r == 'unknown':
            ctx.inconc(name, n); continue
        ctx.violation(f"operators|{t[0]}|{n.split('[')[0]}", f"{n} differs from its mathematical definition", replay=dict(kind='operators', task=list(t), which=n, model=mdl))


def replay(data):
    import torchsde
    r = data['replay']
    if r['kind'] == 'interface':
        st, method, nt, opts, d, m = r['task']
        mm = e1.noise_dim(nt, d, m)
        ts = torch.tensor([0.0, 0.13, 0.2], dtype=torch.float64)
        outs = []
        for variant in ('f+g', r['variant']):
            mk = sdes.Maker(symbolic=False, seed=71)
            base = sdes.PolySDE(mk, st, nt, d=d, m=mm, degt=1, degy=2)
            bm = torchsde.BrownianInterval(0., 0.2, size=(1, mm), dtype=torch.float64, entropy=3, levy_area_approximation=sdes.levy_for(method))
            y0 = torch.tensor(0.3 + 0.1 * np.arange(d).reshape(1, d))
            names = {'drift': 'my_drift', 'diffusion': 'my_diffusion'} if variant == 'renamed' else None
            try:
                outs.append(torchsde.sdeint(expose(base, variant), y0, ts, bm=bm, method=method, dt=0.1, options=dict(opts), names=names))
            except (RuntimeError, ValueError) as e:
                print('replay C16: explicit error', e)
                return not ('has not been provided' in str(e) or 'must define' in str(e) or 'Cannot infer' in str(e))
            except Exception as e:
                print('replay C16: unexpected', type(e).__name__, e)
                return True
        print('replay C16: max abs diff', float((outs[0] - outs[1]).abs().max()))
        return not torch.equal(outs[0], outs[1])
    # operators: numeric check of the definition by finite differences of g at the model point
    from torchsde._core import base_sde
    nt, d, m, nb = r['task']
    mm = e1.noise_dim(nt, d, m)
    mk = sdes.Maker(symbolic=False, env=r.get('model') or {}, seed=73)
    base = sdes.PolySDE(mk, 'stratonovich', nt, d=d, m=mm, degt=1, degy=2)
    t = mk('t', (), values=0.3); y = mk('y', (nb, d)); v = mk('v', (nb, mm)); w = mk('w', (nb, mm))
    fs = base_sde.ForwardSDE(base)
    bad = False
    for b in range(nb):
        yb = y[b:b + 1]
        J = torch.autograd.functional.jacobian(lambda yy: base.g(t, yy), yb)      # g shape + (1,d)
        g = base.g(t, yb)
        if nt != 'general' and nt != 'additive':
            _, gdg = fs.g_prod_and_gdg_prod(t, y, v, w)
            if nt == 'diagonal':
                want = torch.stack([g[0, i] * J[0, i, 0, i] * w[b, i] for i in range(d)])
            else:
                want = torch.stack([sum(g[0, l, j] * J[0, i, j, 0, l] * w[b, j] for j in range(mm) for l in range(d)) for i in range(d)])
            err = float((gdg[b].reshape(-1) - want).abs().max()); print('replay C16 gdg err row', b, err); bad |= err > 1e-9
        if nt == 'general':
            if b == 0:
                Ax = mk('Ax', (nb, mm, mm)); A = Ax - Ax.transpose(-1, -2)
            for fast in (False, True):
                out = base_sde.ForwardSDE(base, fast_dg_ga_jvp_column_sum=fast).dg_ga_jvp_column_sum(t, y, A)
                want = torch.stack([sum(J[0, i, l, 0, j] * g[0, j, k] * A[b, k, l] for j in range(d) for k in range(mm) for l in range(mm)) for i in range(d)])
                err = float((out[b].reshape(-1) - want).abs().max()); print('replay C16 dg_ga err row', b, 'fast' if fast else 'v1', err); bad |= err > 1e-9
    return bad
