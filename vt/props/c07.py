"""C07 - every valid query is answered: no crash, stack independent of history, cache bounded.

* crash-freedom: the real constructor + __call__ with symbolic (possibly unresolved / sub-tolerance) query times; any
  exception other than the documented RuntimeError(ta > tb) on a feasible path is a counterexample; a RecursionError under
  a lowered recursion limit is a non-termination / unbounded-stack candidate that is replayed with the default limit.
* stack independent of history: on chain-shaped histories (K sequential steps, symbolic step length) the maximal Python
  frame depth inside a call is the same for every K (trampolined code passes, direct recursion over the history fails).
* cache bound: _LRUDict one-step invariant from an arbitrary valid state (CrossHair, E3) and len(cache) <= cache_size on
  every explored path.
"""
import os
import subprocess
import sys
import time
from fractions import Fraction

import torch

from .. import dag, symx, brownian as B, bshim
from ..core import pmap, Inconclusive, ROOT, REPO
from ..symtorch import Unsupported
from ..symx import Engine
from .. import symx as _sx
from .c03 import HAVE_H, HAVE_A, _jsonable

RECDEPTH = 160     # Python frames allowed below the harness during crash exploration (legitimate need: < 40)


def cache_len(top):
    c = top._increment_and_space_time_levy_area_cache
    try:
        return len(c)
    except TypeError:
        return 0


def harness(cfg, nq, offgrid):
    c = dict(B.DEFAULT); c.update(cfg)
    levy = c['levy']
    kw = {}
    if levy in HAVE_H: kw['return_U'] = True
    if levy in HAVE_A: kw['return_A'] = True

    def h(E):
        old = sys.getrecursionlimit()
        try:
            sys.setrecursionlimit(B.frame_depth() + RECDEPTH)
            bm, top, lo, hi = B.make(E, cfg)
            for k in range(nq):
                a = E.input(f'q{k}a', lo.v + (hi.v - lo.v) * Fraction(1 + k, 7)); b = E.input(f'q{k}b', lo.v + (hi.v - lo.v) * Fraction(4 + k, 7))
                E.assume((a >= lo) & (b <= hi) & (a <= b))
                bm(a, b, **kw)
                cs = c['cache_size']
                if cs is not None and cache_len(top) > cs:
                    E.fail('cache-bound', 'concrete', f'{cache_len(top)} cached entries with cache_size={cs}')
                cache = top._increment_and_space_time_levy_area_cache
                if hasattr(cache, '_keys') and sorted(map(id, cache._keys)) != sorted(map(id, cache.keys())):
                    E.fail('cache-keys', 'concrete', '_LRUDict._keys out of sync with the stored keys')
        except (Inconclusive, Unsupported):
            raise
        except RecursionError as e:
            E.fail('recursion', 'exception', f"RecursionError with {RECDEPTH} frames of head-room")
        except Exception as e:
            import traceback
            E.fail(f'crash-{type(e).__name__}', 'exception', f"{type(e).__name__}: {e} | {traceback.format_exc()[-500:]}")
        finally:
            sys.setrecursionlimit(old)
    return h


def chain_harness(cfg, K, backward):
    """solver-shaped histories: a chain of K and a chain of 2K consecutive steps of symbolic length (then optionally
    backward) on two objects; the maximal Python frame depth needed by a call must not depend on the chain length.
    With warm=True the dependency-tree refinement is made to fire at the END of the chain (counter state reached after
    100 - K queries), so that it runs over a tree that already contains the whole chain."""
    c = dict(B.DEFAULT); c.update(cfg)
    levy = c['levy']
    kw = {}
    if levy in HAVE_H: kw['return_U'] = True

    def h(E):
        try:
            span = Fraction(c['t1']) - Fraction(c['t0'])
            step = E.input('h', span / (2 * K + 1))
            E.assume((step * (2 * K) <= span) & (step * (2 * K + 2) >= span))
            worst = {}
            for n in (K, 2 * K):
                bm, top, lo, hi = B.make(E, cfg)
                if c.get('warm'):
                    top._num_evaluations = -(n - 1)
                prof = {'max': 0}

                def tracer(frame, event, arg):
                    if event == 'call' and frame.f_code.co_filename.endswith('brownian_interval.py'):
                        d = 0
                        f = frame
                        while f is not None:
                            d += 1
                            f = f.f_back
                        if d > prof['max']:
                            prof['max'] = d
                seq = [(lo + k * step, lo + (k + 1) * step) for k in range(n)]
                if backward:
                    seq = seq + seq[::-1]
                depths = []
                for (a, b) in seq:
                    base = B.frame_depth()
                    prof['max'] = 0
                    sys.setprofile(tracer)
                    try:
                        bm(a, b, **kw)
                    finally:
                        sys.setprofile(None)
                    depths.append(max(prof['max'] - base, 0))
                worst[n] = max(depths)
                E.samples_depth = {str(k): v for k, v in worst.items()}
            if worst[2 * K] > worst[K] + 6:
                E.fail('stack-grows-with-history', 'concrete', f'max frame depth per call: {worst[K]} for a chain of {K} steps, {worst[2 * K]} for {2 * K} steps')
        except (Inconclusive, Unsupported):
            raise
        except Exception as e:
            import traceback
            E.fail(f'crash-{type(e).__name__}', 'exception', f"{type(e).__name__}: {e} | {traceback.format_exc()[-500:]}")
        finally:
            sys.setprofile(None)
    return h


def run_one(task):
    kind, cfg, a, b, max_paths, timeout_ms = task
    B.setup()
    nb = 1500 if kind == 'crash' else 40000
    E = Engine(max_paths=max_paths, timeout_ms=timeout_ms, max_branches=nb)
    t = time.time()

    def on_end(E_, aborted):
        if aborted == 'branch bound':
            E_.fail('non-termination', 'exception', f'still running after {nb} branch decisions (candidate: unbounded loop / recursion)')
    fails = E.explore(harness(cfg, a, b) if kind == 'crash' else chain_harness(cfg, a, b), on_path_end=on_end)
    return dict(stats=E.stats, wall=time.time() - t, samples=E.path_log[:2], depths=getattr(E, 'samples_depth', None),
                failures=[dict(what=f.what, kind=f.kind, inputs={k: str(v) for k, v in f.inputs.items()}, detail=f.detail[:500])
                          for f in fails[:20]], nfail=len(fails))


# configuration of the BrownianInterval that sdeint's check_contract builds by default (read back from the real call in run())
SDEINT_DEFAULT = dict(levy='none', size=(1, 2), cache_size=45)


def sdeint_default_config():
    """what the real check_contract constructs for bm=None (concrete observation)"""
    import torch
    from torchsde._core import sdeint as sdeint_mod

    class SDE(torch.nn.Module):
        noise_type = 'general'; sde_type = 'ito'
        def f(self, t, y): return -y
        def g(self, t, y): return torch.ones(y.shape[0], y.shape[1], 2, dtype=y.dtype)
    y0 = torch.zeros(1, 3, dtype=torch.float64)
    ts = torch.tensor([0.0, 1.0], dtype=torch.float64)
    out = sdeint_mod.check_contract(SDE(), y0, ts, None, 'euler', False, None, None, False)
    bm = out[3]
    return dict(levy=bm._levy_area_approximation, size=tuple(bm._size), cache_size=bm._cache_size, dt=bm._dt, tol=bm._tol, halfway=bm._halfway_tree)


def tasks_for(tier):
    q = tier == 'quick'
    mp, to = (4000, 60000) if q else (60000, 300000)
    T = [
        ('crash', dict(levy='none', size=(1,), cache_size=0), 2, True, mp, to),
        ('crash', dict(levy='space-time', size=(1,), cache_size=1), 2, True, mp, to),
        ('crash', dict(levy='davie', size=(1, 2), cache_size=None), 1, True, mp, to),
        ('crash', dict(levy='none', size=(1,), tol=0.1), 1, True, mp, to),
        ('crash', dict(levy='none', size=(1,), tol=0.1, halfway=True, t1=Fraction(1, 2)), 1, True, mp, to),
        ('crash', dict(levy='space-time', size=(), tol=0.1, halfway=True, cache_size=1, t1=Fraction(1, 2)), 1, True, mp, to),
        ('crash', dict(wrapper='tree', levy='none', size=(1,), tol=0.1, t1=Fraction(1, 2)), 1, True, mp, to),
        # a tolerance that is not a power of ten: the rounding grid (10^-1) is coarser than tol
        ('crash', dict(levy='none', size=(1,), tol=0.05, halfway=True, t1=Fraction(1, 2)), 1, True, mp, to),
        ('crash', dict(levy='none', size=(1,), tol=0.03, cache_size=1, t1=Fraction(1, 2)), 2, True, mp, to),
        ('crash', dict(levy='none', size=(1,), cache_size=2, dt=0.25), 1, True, mp, to),
        ('crash', dict(levy='none', size=(1,), cache_size=0, dt=0.25), 1, True, mp, to),
        # end points off the tolerance grid (they must be resolved like every query time)
        ('crash', dict(levy='none', size=(1,), tol=0.1, t0=Fraction(1, 3), t1=Fraction(5, 6)), 1, True, mp, to),
        # a dt hint together with a tolerance: the pieces of the pre-built tree (0.8 * dt * cache_size) are shorter than tol
        ('crash', dict(levy='none', size=(1,), cache_size=1, dt=0.1, tol=0.1, t1=Fraction(1, 2)), 1, True, mp, to),
        ('crash', dict(levy='space-time', size=(1,), cache_size=2, dt=0.03, tol=0.1, t1=Fraction(1, 2)), 1, True, mp, to),
        ('chain', dict(levy='none', size=(1,), cache_size=1), 6, True, mp, to),
        ('chain', dict(levy='space-time', size=(1,), cache_size=2, warm=True), 6, False, mp, to),
        ('chain', dict(levy='none', size=(1,), cache_size=0, warm=True), 5, True, mp, to),
        ('chain', dict(SDEINT_DEFAULT, warm=True), 5, True, mp, to),        # the Brownian motion sdeint builds when none is given
    ]
    if not q:
        T += [
            ('crash', dict(levy='none', size=(1,), tol=0.1, halfway=True, t1=Fraction(1, 2)), 2, True, mp, to),
            ('crash', dict(levy='foster', size=(2, 2), cache_size=1), 2, True, mp, to),
            ('crash', dict(levy='none', size=(1,), tol=0.01, halfway=True, t1=Fraction(1, 4)), 1, True, mp, to),
            ('crash', dict(levy='none', size=(1,), tol=0.1, halfway=True, t0=Fraction(-46, 100), t1=Fraction(-16, 100)), 1, True, mp, to),
            ('chain', dict(levy='none', size=(1,), cache_size=1, warm=True), 10, True, mp, to),
            ('chain', dict(levy='space-time', size=(1,), cache_size=None), 10, True, mp, to),
        ]
    return T


def lru_task(_):
    """_LRUDict one-step invariant from an ARBITRARY valid state (constructed directly: any duplicate-free key list of
    length <= max_size), arbitrary new key; the solver enumerates the bounded integer inputs"""
    from torchsde._brownian.brownian_interval import _LRUDict
    E = Engine(max_paths=200000, timeout_ms=30000, max_branches=400)

    def h(E):
        ms = E.concretize_int(E.input_int('max_size', 1, lo=1, hi=3), 1, 3)
        n = E.concretize_int(E.input_int('n', 0, lo=0, hi=3), 0, 3)
        E.assume(n <= ms)
        ms, n = int(ms.v), int(n.v)
        keys = []
        for i in range(n):
            k = int(E.concretize_int(E.input_int(f'k{i}', i, lo=0, hi=3), 0, 3).v)
            if k in keys:
                raise symx.PathAbort('duplicate key: not a valid state')
            keys.append(k)
        new = int(E.concretize_int(E.input_int('new', 0, lo=0, hi=4), 0, 4).v)
        d = _LRUDict(ms)
        for k in keys:
            dict.__setitem__(d, k, ('v', k))
        d._keys = list(keys)
        d[new] = 'new'
        exp = [k for k in keys if k != new]
        if new not in keys and len(keys) >= ms:
            exp = exp[1:]
        exp = exp + [new]
        if len(d) > ms:
            E.fail('lru-size', 'concrete', f'{len(d)} entries with max_size {ms} (state {keys}, new key {new})')
        if list(d._keys) != exp or sorted(d.keys()) != sorted(exp) or d[new] != 'new':
            E.fail('lru-order', 'concrete', f'state {keys} + key {new}: keys {d._keys}, stored {sorted(d.keys())}, expected {exp}')
    fails = E.explore(h)
    return dict(stats=E.stats, failures=[dict(what=f.what, detail=f.detail) for f in fails[:5]], nfail=len(fails))


def crosshair_lru(ctx):
    """E3: _EmptyDict stores nothing and is_strictly_increasing, decided by CrossHair (z3) over all paths"""
    src = os.path.join(ROOT, 'vt', 'crosshair_units', 'lru.py')
    t = time.time()
    env = dict(os.environ); env['PYTHONPATH'] = f"{REPO}:{ROOT}"
    try:
        r = subprocess.run([sys.executable, '-m', 'crosshair', 'check', '--report_all', '--per_condition_timeout',
                            '40' if ctx.tier == 'quick' else '200', src], capture_output=True, text=True, timeout=900, env=env, cwd=ROOT)
    except subprocess.TimeoutExpired:
        ctx.inconc('crosshair _LRUDict', 'timeout'); return
    out = r.stdout + r.stderr
    ctx.solver_s += time.time() - t
    confirmed = out.count('Confirmed over all paths')
    ctx.queries += max(confirmed, 1)
    if 'error' in out.lower() and 'false when calling' in out.lower() or 'counterexample' in out.lower():
        line = [l for l in out.splitlines() if 'when calling' in l or 'counterexample' in l.lower()][:1]
        ctx.violation('_EmptyDict|crosshair', f'CrossHair counterexample: {line}', replay=dict(lru=True, text=out[-800:]))
    elif 'Not confirmed' in out or 'Unable to meet precondition' in out or confirmed == 0:
        ctx.inconc('crosshair units', out[-400:])
    else:
        ctx.paths += confirmed
        ctx.ok(f'_EmptyDict / is_strictly_increasing contracts (CrossHair: {confirmed} conditions confirmed over all paths)')


def run(ctx):
    ctx.fn('BrownianInterval.__init__', 'BrownianInterval.__call__', '_Interval._loc', '_Interval._loc_inner', '_Interval._split',
           '_Interval._split_exact', 'BrownianInterval._create_dependency_tree', '_set_points', '_LRUDict.__setitem__', '_EmptyDict',
           '_Interval._increment_and_space_time_levy_area', 'BrownianTree.__call__')
    ctx.stubs += bshim.STUBS
    ctx.bounds = {'queries per history (crash exploration)': '<=2 arbitrary symbolic real times (off-grid, sub-tolerance, zero-length included)',
                  'chain lengths compared': 'K vs 2K, K = 5-6 (quick) / 10, symbolic step length in [span/(2K+2), span/2K]', 'stack head-room during crash exploration': f'{RECDEPTH} Python frames',
                  'configs': 'dt hint combined with tol > 0 (pieces shorter than the tolerance); the sdeint default (cache_size 45, no dt hint, tol 0) read back from the real check_contract; cache_size 0/1/2/45/None, dt hint or not, tol 0/0.1/0.01, halfway_tree, all Levy modes'}
    ctx.assumptions += ['documented validity predicate of the constructor only', 'a RecursionError within %d frames of head-room, or a path cut at the branch bound, is replayed on floats with the default recursion limit and a time limit before being reported' % RECDEPTH]
    ctx.outside += ['histories of tens of thousands of queries as such: decided through history-independence of the frame depth on small chains; long runs are replay material']
    tasks = tasks_for(ctx.tier)
    for t, (st, res) in zip(tasks, pmap(run_one, tasks)):
        name = f"{t[0]}|{B.cfg_name(t[1])}|{t[2]}|{t[3]}"
        if st != 'ok':
            ctx.inconc(name, str(res)[:500]); continue
        ctx.paths += res['stats']['paths']; ctx.queries += res['stats']['queries']; ctx.solver_s += res['stats']['solver_s']
        ctx.validated += res['stats']['paths']
        ctx.sample({'scenario': name, 'paths': res['stats']['paths'], 'frame_depths': res.get('depths'), 'example': res['samples'][:1]})
        if not res['nfail']:
            ctx.ok(name, f"{res['stats']['paths']} paths, {res['stats']['queries']} queries, {res['wall']:.1f}s"); continue
        seen = set()
        for f in res['failures']:
            if f['what'] in seen:
                continue
            seen.add(f['what'])
            ctx.violation(f"{t[0]}|{B.cfg_name(t[1])}|{f['what']}", f"{f['what']}: {f['detail'][:300]}",
                          replay=dict(kind=t[0], cfg=_jsonable(t[1]), a=t[2], b=t[3], inputs=f['inputs'], what=f['what']))
    st_, res = pmap(lru_task, [0])[0]
    if st_ != 'ok':
        ctx.inconc('_LRUDict one-step invariant', str(res)[:400])
    else:
        ctx.paths += res['stats']['paths']; ctx.queries += res['stats']['queries']; ctx.solver_s += res['stats']['solver_s']
        if res['nfail']:
            f = res['failures'][0]
            ctx.violation(f"_LRUDict|{f['what']}", f['detail'], replay=dict(lru=True))
        else:
            ctx.ok(f"_LRUDict one-step invariant from every valid state (max_size<=3, keys in 0..3): {res['stats']['paths']} states")
    crosshair_lru(ctx)
    try:
        got = sdeint_default_config()
        want = dict(B.DEFAULT); want.update(SDEINT_DEFAULT)
        same = (got['levy'] == want['levy'] and got['cache_size'] == want['cache_size'] and got['dt'] == want['dt'] and not got['tol'] and not want['tol']
                and got['halfway'] == want['halfway'] and len(got['size']) == len(want['size']))
        if same:
            ctx.ok(f"sdeint's default Brownian motion {got} is the explored configuration labelled SDEINT_DEFAULT")
        else:
            ctx.inconc("sdeint's default Brownian motion", f"check_contract now builds {got}; the explored default is {SDEINT_DEFAULT}: update the configuration list")
    except Exception as e:
        ctx.inconc("sdeint's default Brownian motion", f"{type(e).__name__}: {e}")
    ctx.twin('twin: ta > tb must raise (the documented RuntimeError is reachable)', twin())


def twin():
    B.setup()
    E = Engine(max_paths=20)

    def h(E):
        bm, top, lo, hi = B.make(E, dict(levy='none', size=(1,)))
        a = E.input('a', Fraction(3, 4)); b = E.input('b', Fraction(1, 4))
        E.assume((a >= lo) & (a <= hi) & (b >= lo) & (b <= hi))
        try:
            bm(a, b)
        except RuntimeError:
            E.fail('twin', 'concrete', 'raised')
    return bool(E.explore(h))


def replay(data):
    import torchsde
    r = data['replay']
    if r.get('lru'):
        from torchsde._brownian.brownian_interval import _LRUDict
        d = _LRUDict(2)
        for k in [1, 2, 1, 3, 3, 4, 1]:
            d[k] = k
            if len(d) > 2 or sorted(d._keys) != sorted(d.keys()):
                return True
        return False
    cfg = dict(B.DEFAULT); cfg.update(r['cfg'])
    inp = {k: float(Fraction(v)) for k, v in r['inputs'].items()}
    size = tuple(cfg['size'])
    levy = cfg['levy']
    kw = {}
    if levy in HAVE_H: kw['return_U'] = True
    if levy in HAVE_A and r['kind'] == 'crash': kw['return_A'] = True
    t0, t1 = float(Fraction(cfg['t0'])), float(Fraction(cfg['t1']))
    bad = []
    import signal

    def _alarm(*a):
        raise TimeoutError('call did not return within 60 s')
    signal.signal(signal.SIGALRM, _alarm)
    signal.alarm(60)
    try:
        if cfg['wrapper'] == 'tree':
            bm = torchsde.BrownianTree(t0=t0, w0=torch.zeros(size, dtype=torch.float64), t1=t1, entropy=cfg['entropy'], tol=cfg['tol'] or 0.1)
            top = bm._interval
        else:
            bm = torchsde.BrownianInterval(t0=t0, t1=t1, size=size, dtype=torch.float64, entropy=cfg['entropy'], levy_area_approximation=levy,
                                           cache_size=cfg['cache_size'], dt=cfg['dt'], tol=cfg['tol'], halfway_tree=cfg['halfway'])
            top = bm
        if r['kind'] == 'crash':
            for k in range(r['a']):
                bm(inp[f'q{k}a'], inp[f'q{k}b'], **kw)
                cs = cfg['cache_size']
                if cs is not None and cache_len(top) > cs:
                    bad.append('cache bound exceeded')
            if not bad and cfg['tol']:
                # the symbolic run rounds exact rationals, the library rounds binary floats: which grid point trips a
                # rounding-dependent defect can differ.  Confirm on floats with the same query shape shifted over the grid.
                import math as _m
                grid = 10.0 ** int(_m.log10(cfg['tol']))
                qa, qb = inp['q0a'], inp['q0b']
                n = int((t1 - t0) / grid) + 1
                cands = [(qa + j * grid, qb + j * grid) for j in range(-n, n + 1)]
                # ... and the same query LENGTH slid over a lattice ten times finer than the grid
                fine = grid / 10.0
                cands += [(t0 + i * fine, t0 + i * fine + (qb - qa) + k * fine) for k in range(0, 5) for i in range(int((t1 - t0) / fine) + 1)]
                for j, (a_, b_) in enumerate(cands[:1500]):
                    if a_ < t0 or b_ > t1:
                        continue
                    fresh = (torchsde.BrownianTree(t0=t0, w0=torch.zeros(size, dtype=torch.float64), t1=t1, entropy=cfg['entropy'], tol=cfg['tol'])
                             if cfg['wrapper'] == 'tree' else
                             torchsde.BrownianInterval(t0=t0, t1=t1, size=size, dtype=torch.float64, entropy=cfg['entropy'], levy_area_approximation=levy,
                                                       cache_size=cfg['cache_size'], dt=cfg['dt'], tol=cfg['tol'], halfway_tree=cfg['halfway']))
                    try:
                        fresh(a_, b_, **kw)
                    except RuntimeError as e:
                        if 'must respect ta <= tb' not in str(e):
                            bad.append(f'query ({a_}, {b_}): RuntimeError {e}')
                            break
                    except RecursionError:
                        bad.append(f'query ({a_}, {b_}) (the counterexample query slid along the rounding grid): RecursionError with the default recursion limit')
                        break
        else:
            K = r['a']; step = inp['h']
            worst = {}
            for n in (K, 2 * K, 40 * K):
                if cfg['wrapper'] == 'tree':
                    bm2 = torchsde.BrownianTree(t0=t0, w0=torch.zeros(size, dtype=torch.float64), t1=t1, entropy=cfg['entropy'], tol=cfg['tol'] or 0.1); top2 = bm2._interval
                else:
                    bm2 = torchsde.BrownianInterval(t0=t0, t1=t1, size=size, dtype=torch.float64, entropy=cfg['entropy'], levy_area_approximation=levy,
                                                    cache_size=cfg['cache_size'], dt=cfg['dt'], tol=cfg['tol'], halfway_tree=cfg['halfway']); top2 = bm2
                st = step if n <= 2 * K else (t1 - t0) / (n + 1)
                if cfg.get('warm'):
                    top2._num_evaluations = -(n - 1)
                prof = {'max': 0}

                def tracer(frame, event, arg):
                    if event == 'call' and frame.f_code.co_filename.endswith('brownian_interval.py'):
                        d = 0; f = frame
                        while f is not None:
                            d += 1; f = f.f_back
                        prof['max'] = max(prof['max'], d)
                seq = [(t0 + k * st, t0 + (k + 1) * st) for k in range(n)]
                if r['b']:
                    seq = seq + seq[::-1]
                base = B.frame_depth()
                sys.setprofile(tracer)
                try:
                    for (a_, b_) in seq:
                        bm2(a_, b_, **kw)
                finally:
                    sys.setprofile(None)
                worst[n] = prof['max'] - base
            print('max frame depth per chain length:', worst)
            if worst[2 * K] > worst[K] + 6 or worst[40 * K] > worst[K] + 12:
                bad.append(f'frame depth grows with the history: {worst}')
    except TimeoutError as e:
        bad.append(str(e))
    except RecursionError as e:
        bad.append('RecursionError with the default recursion limit')
    except RuntimeError as e:
        if 'must respect ta <= tb' not in str(e):
            bad.append(f'crash RuntimeError: {e}')
    except Exception as e:
        bad.append(f'crash {type(e).__name__}: {e}')
    signal.alarm(0)
    print('replay C07:', bad or 'all calls returned normally')
    return bool(bad)
