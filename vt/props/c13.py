"""C13 - chunked (checkpoint-restart) integration equals one-shot integration: identical float-operation DAGs (E1) for the
values, and identical step-interval sequences for symbolic t0/dt (E2 on the real integrate loop)."""
import time
from fractions import Fraction

import numpy as np
import torch

from .. import dag, sdes, e1, loopmodel, brownian as B
from ..core import pmap, Inconclusive
from ..symtorch import validate, SymT
from ..symx import Engine


def scenario(task):
    import torchsde
    st, method, nt, opts, d, m, B_, cuts, dt, pass_extra = task
    mm = e1.noise_dim(nt, d, m)
    mk = sdes.Maker(symbolic=True, seed=41)
    sde = sdes.PolySDE(mk, st, nt, d=d, m=mm, degt=1, degy=2)
    bm = sdes.KeyedBM(mk, B_, mm, levy=sdes.levy_for(method))
    y0 = mk('y0', (B_, d), values=0.3 + 0.1 * np.arange(B_ * d).reshape(B_, d))
    t_all = [0.0] + list(cuts)
    full = torchsde.sdeint(sde, y0, torch.tensor(t_all, dtype=torch.float64), bm=bm, method=method, dt=dt, options=dict(opts))
    validate(full, mk.env, 1e-8)
    # chunked: restart from the returned final state (and extra state) at every cut
    cur = y0
    extra = None
    chunk_out = [y0]
    for a, b in zip(t_all[:-1], t_all[1:]):
        kw = {}
        if pass_extra and extra is not None:
            kw['extra_solver_state'] = extra
        ys, extra = torchsde.sdeint(sde, cur, torch.tensor([a, b], dtype=torch.float64), bm=bm, method=method, dt=dt, options=dict(opts),
                                    extra=True, **kw)
        cur = ys[-1]
        chunk_out.append(cur)
    diffs = []
    Zc = e1.Z()
    real_equal = True
    smemo = {}
    for i, (x, y) in enumerate(zip(full, chunk_out)):
        for k, (p, q) in enumerate(zip(e1.flat_nodes(x), e1.flat_nodes(y))):
            # an output on the grid is 0*prev + 1*curr: exact in IEEE arithmetic for finite values
            if p is not q and dag.ieee_simplify(p, smemo) is not dag.ieee_simplify(q, smemo):
                diffs.append((i, k))
                # decide "equal as reals" only when the concrete bits agree (otherwise the concrete run already shows the difference)
                if pass_extra and len(diffs) == 1 and torch.equal(x.elem, y.elem):
                    r, _ = Zc.equal(p, q)
                    if r != 'unsat':
                        real_equal = False
                elif not torch.equal(x.elem, y.elem):
                    real_equal = False
    bits = all(torch.equal(x.elem, y.elem) for x, y in zip(full, chunk_out))
    return dict(task=task, diffs=diffs[:5], ndiff=len(diffs), real_equal=real_equal, bits=bits, queries=Zc.queries, solver_s=Zc.solver_s)


def grid_task(task):
    """restart at a grid point: the step intervals of the chunks are those of the one-shot run (symbolic t0, dt)"""
    k1, k2 = task
    E = Engine(max_paths=2000, timeout_ms=30000)

    def h(E):
        t0 = E.input('t0', 0); dt = E.input('dt', Fraction(1, 4)); frac = E.input('frac', Fraction(1, 2))
        E.assume((dt > 0) & (frac > 0) & (frac <= 1))
        t1 = t0 + k1 * dt
        t2 = t1 + (k2 - 1) * dt + frac * dt          # last step possibly clipped
        y0 = loopmodel.fresh_state('y0')
        s = loopmodel.make_stub_solver(dt, False, None)
        s.integrate(y0, [t0, t1, t2], ())
        sa = loopmodel.make_stub_solver(dt, False, None)
        ys_a, _ = sa.integrate(y0, [t0, t1], ())
        sb = loopmodel.make_stub_solver(dt, False, None)
        sb.integrate(y0, [t1, t2], ())
        # the value handed back at the end of a chunk must be the grid state itself, bit for bit: with the output time equal to
        # the accumulated step end (the same float), the interpolation must reduce to the state by rewrites that are EXACT in
        # IEEE arithmetic (x-x=0, 0/w=0, w/w=1, 0*y=0, 1*y=y, 0+y=y).  w*(1/w) or (a*w)/w round and are not accepted.
        if sa.log:
            last = sa.log[-1]
            got = ys_a[-1].sym.reshape(-1)[0]
            want = last['y1'].sym.reshape(-1)[0]
            red = dag.ieee_exact_at(got, [(t1.n, last['t1'].n)])
            if red is not want:
                E.fail('chunk-end-state-exact', 'structure', 'the state returned at the end of a chunk is not the grid state up to IEEE-exact rewrites: ' + dag.show(red, 5))
        parts = sa.log + sb.log
        if len(parts) != len(s.log):
            E.fail('chunk-steps', 'concrete', f'{len(parts)} steps in chunks, {len(s.log)} in one shot')
            return
        for i, (p, q) in enumerate(zip(parts, s.log)):
            E.prove(f'chunk-step{i}', (p['t0'] == q['t0']) & (p['t1'] == q['t1']))
    fails = E.explore(h)
    return dict(stats=E.stats, nfail=len(fails), failures=[dict(what=f.what, kind=f.kind, inputs={k: str(v) for k, v in f.inputs.items()}, detail=f.detail[:300]) for f in fails[:5]])


def tasks_for(tier):
    T = []
    cuts2 = (0.25, 0.5)
    cuts3 = (0.25, 0.375, 0.625)
    for st, method, nt, opts in e1.all_forward_configs():
        T.append((st, method, nt, opts, 1, 2, 1, cuts3, 0.125, True))
        # the final time is off the step grid: the last chunk consists of the clipped partial step only
        T.append((st, method, nt, opts, 1, 2, 1, (0.125, 0.1875), 0.125, True))
    if tier != 'quick':
        for st, method, nt, opts in e1.all_forward_configs():
            T.append((st, method, nt, opts, 2, 2, 2, cuts2, 0.125, True))
            T.append((st, method, nt, opts, 1, 2, 1, (0.125, 0.25, 0.5, 0.75), 0.125, True))
    return T


def run(ctx):
    ctx.fn('sdeint (extra=True / extra_solver_state)', 'parse_return', 'BaseSDESolver.integrate', 'every solver step / init_extra_solver_state',
           'ReversibleHeun.step (extra state)')
    ctx.stubs.append('Brownian motion: deterministic stub keyed by the queried interval (the same object serves all chunks)')
    ctx.bounds = {'chunks': '3, and 2 with a clipped final step (quick) / 2-4, restart points on the dt grid (dyadic dt = 1/8, so grid times are exact floats)',
                  'steps': '4-5', 'dims': 'd=1 (quick) / d=2, batch 2', 'grid part': 'symbolic t0, dt, clipped last step, k1,k2 <= 2-3 steps per chunk'}
    ctx.assumptions += ['identical float-operation DAG => bit-identical results (IEEE determinism)', 'DAGs are compared modulo 1*x, 0*x, x+0 (exact for finite floats; signed zeros compare equal): an output at a grid time is computed as 0*prev + 1*curr']
    ctx.outside += ['float drift between the accumulated current time and a user-computed restart time (non-dyadic dt)']
    tasks = tasks_for(ctx.tier)
    for t, (st_, res) in zip(tasks, pmap(scenario, tasks)):
        gf = ',grad_free' if t[3].get('grad_free') else ''
        name = f"{t[0]},{t[1]},{t[2]}{gf} d={t[4]} cuts={t[7]}"
        if st_ != 'ok':
            ctx.inconc(name, str(res)[:500]); continue
        ctx.paths += 1; ctx.queries += res['queries']; ctx.solver_s += res['solver_s']; ctx.validated += 2
        if res['ndiff'] == 0 and res['bits']:
            ctx.ok(name); continue
        ctx.violation(f"{t[0]},{t[1]},{t[2]}{gf}|chunked", f"chunked result differs from one-shot at {res['diffs']} (equal as reals: {res['real_equal']}, bits equal in the concrete run: {res['bits']})",
                      replay=dict(task=[t[0], t[1], t[2], t[3], t[4], t[5], t[6], list(t[7]), t[8], t[9]]))
    ctx.sample({'value scenarios': len(tasks)})
    # reachability twin: reversible Heun WITHOUT passing the extra state must differ
    tw = scenario(('stratonovich', 'reversible_heun', 'diagonal', {}, 1, 2, 1, (0.25, 0.5), 0.125, False))
    ctx.twin('twin: reversible_heun restarted without its extra state must differ from one-shot', tw['ndiff'] > 0)
    gt = [(1, 2), (2, 2)] + ([] if ctx.tier == 'quick' else [(3, 2), (2, 3)])
    for t, (st_, res) in zip(gt, pmap(grid_task, gt)):
        name = f"grid restart k1={t[0]} k2={t[1]}"
        if st_ != 'ok':
            ctx.inconc(name, str(res)[:400]); continue
        ctx.paths += res['stats']['paths']; ctx.queries += res['stats']['queries']; ctx.solver_s += res['stats']['solver_s']
        if res['nfail']:
            f = res['failures'][0]
            ctx.violation(f"grid|{f['what']}", f['detail'], replay=dict(grid=True, what=f['what'], inputs=f['inputs'], k=list(t)))
        else:
            ctx.ok(name, f"{res['stats']['paths']} paths")


def replay(data):
    import torchsde
    r = data['replay']
    if r.get('grid') and r.get('what') == 'chunk-end-state-exact':
        return replay_exact_end()
    if r.get('grid'):
        inp = {k: float(Fraction(v)) for k, v in r['inputs'].items()}
        k1, k2 = r['k']
        t0, dt, frac = inp.get('t0', 0.0), inp.get('dt', 0.25), inp.get('frac', 0.5)
        if dt <= 0 or not (0 < frac <= 1):
            return False
        t1 = t0 + k1 * dt; t2 = t1 + (k2 - 1) * dt + frac * dt

        class S(torch.nn.Module):
            sde_type = 'ito'; noise_type = 'diagonal'
            def f(self, t, y): return -y
            def g(self, t, y): return 0.2 + 0 * y
        q = []

        class Rec(torchsde.BaseBrownian):
            shape = (1, 1); dtype = torch.float64; device = torch.device('cpu'); levy_area_approximation = 'none'
            def __call__(self, ta, tb=None, return_U=False, return_A=False):
                q.append((float(ta), float(tb))); return torch.zeros(1, 1, dtype=torch.float64)
            def __repr__(self): return 'Rec'
        y0 = torch.ones(1, 1, dtype=torch.float64)
        torchsde.sdeint(S(), y0, [t0, t1, t2], bm=Rec(), method='euler', dt=dt); one = list(q); del q[:]
        torchsde.sdeint(S(), y0, [t0, t1], bm=Rec(), method='euler', dt=dt); torchsde.sdeint(S(), y0, [t1, t2], bm=Rec(), method='euler', dt=dt)
        bad = len(one) != len(q) or any(abs(a - c) > 1e-9 or abs(b - d) > 1e-9 for (a, b), (c, d) in zip(one, q))
        print('replay C13 grid:', one, q)
        return bad
    st, method, nt, opts, d, m, B_, cuts, dt, pass_extra = r['task']
    mm = e1.noise_dim(nt, d, m)
    mk = sdes.Maker(symbolic=False, seed=41)
    sde = sdes.PolySDE(mk, st, nt, d=d, m=mm, degt=1, degy=2)
    bm = torchsde.BrownianInterval(0.0, cuts[-1], size=(B_, mm), dtype=torch.float64, entropy=9, levy_area_approximation=sdes.levy_for(method))
    y0 = torch.full((B_, d), 0.3, dtype=torch.float64)
    t_all = [0.0] + list(cuts)
    full = torchsde.sdeint(sde, y0, torch.tensor(t_all, dtype=torch.float64), bm=bm, method=method, dt=dt, options=dict(opts))
    cur, extra, outs = y0, None, [y0]
    for a, b in zip(t_all[:-1], t_all[1:]):
        kw = {'extra_solver_state': extra} if (pass_extra and extra is not None) else {}
        ys, extra = torchsde.sdeint(sde, cur, torch.tensor([a, b], dtype=torch.float64), bm=bm, method=method, dt=dt, options=dict(opts), extra=True, **kw)
        cur = ys[-1]; outs.append(cur)
    bad = not all(torch.equal(x, y) for x, y in zip(full, outs))
    print('replay C13: max abs diff', max(float((x - y).abs().max()) for x, y in zip(full, outs)))
    return bad


def replay_exact_end():
    """the structural verdict says the value returned at a chunk end is not the grid state by exact float operations: look for
    floats where the bits really differ (restart time = the accumulated grid time in the dtype of ts; float32 and float64)"""
    import torchsde

    class S(torch.nn.Module):
        sde_type = 'ito'; noise_type = 'diagonal'
        def f(self, t, y): return torch.sin(y) + 0.3
        def g(self, t, y): return 0.2 + 0.1 * torch.cos(y)
    found = None
    for dtype in (torch.float32, torch.float64):
        for i in list(range(1, 120)) + list(range(120, 400, 7)):
            dt = i / 1000.0
            for k in (1, 3, 4, 9, 12):
                t = torch.tensor(0.0, dtype=dtype)
                for _ in range(k):
                    t = t + dt                      # the time the loop accumulates
                t1 = float(t); t2 = float(t + dt + dt)
                y0 = torch.full((2, 1), 0.3, dtype=dtype)
                bm = torchsde.BrownianInterval(0.0, t2 + 1.0, size=(2, 1), dtype=dtype, entropy=5)
                one = torchsde.sdeint(S(), y0, torch.tensor([0.0, t1, t2], dtype=dtype), bm=bm, method='euler', dt=dt)
                a = torchsde.sdeint(S(), y0, torch.tensor([0.0, t1], dtype=dtype), bm=bm, method='euler', dt=dt)
                b = torchsde.sdeint(S(), a[-1], torch.tensor([t1, t2], dtype=dtype), bm=bm, method='euler', dt=dt)
                if not torch.equal(one[-1], b[-1]):
                    found = (str(dtype), dt, k, float((one[-1] - b[-1]).abs().max()))
                    break
            if found: break
        if found: break
    print('replay C13 chunk-end exactness: first float witness (dtype, dt, restart step, |diff|):', found)
    return found is not None
