"""C11 - adjoint SDE vector fields are the exact vector-Jacobian products (E1: real AdjointSDE on a real ForwardSDE,
real autograd incl. double backward; oracle built from dag.diff of the traced f, g; z3 equality for all symbol values)."""
import time
from fractions import Fraction

import numpy as np
import torch
import z3

from .. import dag, sdes
from ..core import pmap, Inconclusive
from ..dag import lift, ZERO
from ..symtorch import SymT, validate, sym_tensor


def build(st, nt, d, m, B, symbolic=True, env=None, grad_enabled=False):
    from torchsde._core import base_sde, adjoint_sde
    mk = sdes.Maker(symbolic=symbolic, env=env, seed=7)
    mm = d if nt == 'diagonal' else (1 if nt == 'scalar' else m)
    sde = sdes.PolySDE(mk, st, nt, d=d, m=mm, degt=1, degy=2, params_grad=True, unused_param=True)
    fsde = base_sde.ForwardSDE(sde)
    params = list(sde.parameters())
    y = mk('y', (B, d), values=0.3 + 0.1 * np.arange(B * d).reshape(B, d))
    a = mk('adj', (B, d), values=0.5 - 0.2 * np.arange(B * d).reshape(B, d))
    pz = [mk(f'ap{i}', tuple(p.shape), values=np.zeros(tuple(p.shape))) for i, p in enumerate(params)]
    shapes = [y.size(), a.size()] + [p.size() for p in params]
    y_aug = torch.cat([y.reshape(-1), a.reshape(-1)] + [p.reshape(-1) for p in pz]).unsqueeze(0)
    if symbolic:
        y_aug = SymT(y_aug.elem.clone(), y_aug.sym.copy())      # a leaf
    else:
        y_aug = y_aug.detach().clone()
    t = mk('t', (), values=-0.4)
    v = mk('v', (B, mm), values=0.2 + 0.1 * np.arange(B * mm).reshape(B, mm))
    v2 = mk('w', (B, mm), values=-0.3 + 0.1 * np.arange(B * mm).reshape(B, mm))
    adj = adjoint_sde.AdjointSDE(fsde, params, shapes)
    return mk, sde, fsde, params, adj, y_aug, t, v, v2, y, a, mm


def oracle(st, nt, sde, params, y, a, t, v, v2, B, d, mm, which):
    """flat list of nodes for the prescribed vector field `which` in ('f', 'g_prod', 'gdg')"""
    tm = -t
    f = sde.f(tm, y).sym
    g = sde.g(tm, y).sym
    if nt == 'diagonal':
        G = np.empty((B, d, d), dtype=object)
        for b in range(B):
            for i in range(d):
                for j in range(d):
                    G[b, i, j] = g[b, i] if i == j else ZERO
    else:
        G = g
    A = a.sym
    ynames = [[y.sym[b, k].args[0] for k in range(d)] for b in range(B)]
    pnames = [list(n.args[0] for n in p.sym.reshape(-1)) for p in params]
    xi_all = [nm for row in ynames for nm in row] + [nm for pn in pnames for nm in pn]
    ito_corr = (st == 'ito' and nt != 'additive')

    def S(terms):
        tot = ZERO
        for x in terms:
            tot = dag._add(tot, x)
        return tot
    if which == 'f':
        state = []
        for b in range(B):
            for i in range(d):
                val = f[b, i]
                if ito_corr:
                    c = S(dag._mul(G[b, l, j], dag.diff(G[b, i, j], ynames[b][l])) for j in range(G.shape[2]) for l in range(d))
                    val = dag._sub(val, c)
                state.append(dag._neg(val))
        adjp = []
        for xi in xi_all:
            tot = S(dag._mul(A[b, i], dag.diff(f[b, i], xi)) for b in range(B) for i in range(d))
            if ito_corr:
                sec = S(dag._mul(dag._mul(A[b, i], G[b, l, j]), dag.diff(dag.diff(G[b, i, j], ynames[b][l]), xi))
                        for b in range(B) for i in range(d) for j in range(G.shape[2]) for l in range(d))
                tot = dag._sub(tot, sec)
            adjp.append(tot)
        return state + adjp
    V = v.sym
    if which == 'g_prod':
        gv = [[S(dag._mul(G[b, i, j], V[b, j]) for j in range(G.shape[2])) for i in range(d)] for b in range(B)]
        state = [dag._neg(gv[b][i]) for b in range(B) for i in range(d)]
        adjp = [S(dag._mul(A[b, i], dag.diff(gv[b][i], xi)) for b in range(B) for i in range(d)) for xi in xi_all]
        return state + adjp
    if which == 'gdg':        # diagonal noise only
        W2 = v2.sym
        state = [dag._mul(dag._mul(W2[b, i], g[b, i]), dag.diff(g[b, i], ynames[b][i])) for b in range(B) for i in range(d)]
        adjp = []
        for xi in xi_all:
            tot = S(dag._mul(dag._mul(W2[b, i], A[b, i]),
                             dag._sub(dag._mul(dag.diff(g[b, i], ynames[b][i]), dag.diff(g[b, i], xi)),
                                      dag._mul(g[b, i], dag.diff(dag.diff(g[b, i], ynames[b][i]), xi))))
                    for b in range(B) for i in range(d))
            adjp.append(tot)
        return state + adjp
    raise ValueError(which)


def scenario(task):
    st, nt, d, m, B = task
    mk, sde, fsde, params, adj, y_aug, t, v, v2, y, a, mm = build(st, nt, d, m, B)
    out = {}
    with torch.no_grad():
        o_f = adj.f(t, y_aug)
        o_g = adj.g_prod(t, y_aug, v)
        o_fg = adj.f_and_g_prod(t, y_aug, v)
        out['f'] = o_f; out['g_prod'] = o_g
        if nt == 'diagonal':
            o_gg = adj.g_prod_and_gdg_prod(t, y_aug, v, v2)
            out['gdg'] = o_gg[1]
    notes = []
    for nm, o in list(out.items()) + [('f_and_g_prod[0]', o_fg[0]), ('f_and_g_prod[1]', o_fg[1])]:
        validate(o, mk.env, 1e-8)
        if o.requires_grad or o.grad_fn is not None:
            notes.append(f'{nm}: autograd graph left behind under no_grad')
    with torch.enable_grad():
        o2 = adj.f(t, y_aug)
        if not o2.requires_grad:
            notes.append('f: not differentiable with grad enabled')
        og = adj.g_prod(t, y_aug, v)
        if not og.requires_grad:
            notes.append('g_prod: not differentiable with grad enabled')
    res = []
    # "remains differentiable when enabled": with gradients enabled the derivative of <w, field> wrt the augmented state and
    # every parameter, as computed by autograd through the field's own nested graph, equals the symbolic derivative of the
    # field (the values alone do not show a graph that was cut inside)
    from .. import e1 as _e1
    Zd = _e1.Z()
    with torch.enable_grad():
        ya = SymT(y_aug.elem.clone(), y_aug.sym.copy()).requires_grad_(True)
        fields = [('f', lambda: adj.f(t, ya)), ('g_prod', lambda: adj.g_prod(t, ya, v)), ('f_and_g_prod[0]', lambda: adj.f_and_g_prod(t, ya, v)[0])]
        # (the diagonal Milstein term is detached on purpose in the library - it is only ever used as a value - and is left out)
        for nm, fn in fields:
            o = fn()
            w_ = mk('dw_' + nm.replace('[', '').replace(']', ''), tuple(o.shape), values=0.3 + 0.07 * np.arange(o.numel()).reshape(tuple(o.shape)))
            lo = (o * w_).sum()
            gs = torch.autograd.grad(lo, [ya] + params, allow_unused=True)
            lnode = lo.sym.reshape(-1)[0]
            nd = B * d * 2          # derivative wrt (y, adj_y); the parameter slots of y_aug only enter linearly
            for tn, tensor, g_ in zip(['y_aug'] + [f'param{i}' for i in range(len(params))], [ya] + params, gs):
                names_ = list(tensor.sym.reshape(-1))
                if tn == 'y_aug':
                    names_ = names_[:nd]
                for k, vn in enumerate(names_):
                    want = dag.diff(lnode, vn.args[0])
                    got = dag.ZERO if g_ is None else g_.sym.reshape(-1)[k]
                    r, model = Zd.equal(got, want)
                    if r != 'unsat':
                        res.append((f'd{nm}/d{tn}[{k}]', r, model)); break
    zv = {}
    zenv = lambda n_: zv.setdefault(n_, z3.Real(n_))
    memo = {}
    solver_s = Zd.solver_s
    pairs = [('f', out['f']), ('g_prod', out['g_prod'])] + ([('gdg', out['gdg'])] if 'gdg' in out else [])
    for which, o in pairs:
        want = oracle(st, nt, sde, params, y, a, t, v, v2, B, d, mm, which)
        got = list(o.sym.reshape(-1))
        if len(got) != len(want):
            res.append((which, 'shape', {})); continue
        for k, (x, w) in enumerate(zip(got, want)):
            side = []
            zx = dag.to_z3(x, zenv, memo, side); zw = dag.to_z3(w, zenv, memo, side)
            s = z3.Solver(); s.set('timeout', 120000)
            s.add(*[c for _, c in side]); s.add(zx != zw)
            t0 = time.time(); r = str(s.check()); solver_s += time.time() - t0
            model = {}
            if r == 'sat':
                mdl = s.model()
                for dcl in mdl.decls():
                    try:
                        val = mdl[dcl]; model[dcl.name()] = float(Fraction(val.numerator_as_long(), val.denominator_as_long()))
                    except Exception:
                        pass
            res.append((f'{which}[{k}]', r, model))
    # f_and_g_prod must be the same terms as f and g_prod
    def same_value(x, w):
        # different float operations are fine (the property is about values); a different VALUE is not
        side_ = []
        s_ = z3.Solver(); s_.set('timeout', 60000)
        zx = dag.to_z3(x, zenv, memo, side_); zw = dag.to_z3(w, zenv, memo, side_)
        s_.add(*[c for _, c in side_]); s_.add(zx != zw)
        r_ = str(s_.check())
        model_ = {}
        if r_ == 'sat':
            mdl_ = s_.model()
            for dcl in mdl_.decls():
                try:
                    val = mdl_[dcl]; model_[dcl.name()] = float(Fraction(val.numerator_as_long(), val.denominator_as_long()))
                except Exception:
                    pass
        return r_, model_
    for k, (x, w) in enumerate(zip(o_fg[0].sym.reshape(-1), out['f'].sym.reshape(-1))):
        if x is not w:
            r_, model_ = same_value(x, w)
            if r_ != 'unsat':
                res.append((f'f_and_g_prod.f[{k}]', r_, model_))
                break
    for k, (x, w) in enumerate(zip(o_fg[1].sym.reshape(-1), out['g_prod'].sym.reshape(-1))):
        if x is not w:
            r_, model_ = same_value(x, w)
            if r_ != 'unsat':
                res.append((f'f_and_g_prod.g[{k}]', r_, model_))
                break
    # twin
    x = out['f'].sym.reshape(-1)[0]
    side = []
    s = z3.Solver(); s.add(dag.to_z3(x, zenv, memo, side) != dag.to_z3(x + dag.ONE, zenv, memo, side) - 1 + 1)
    twin = str(s.check()) == 'sat'
    return dict(task=task, results=res, notes=notes, solver_s=solver_s, twin=twin)


def tasks_for(tier):
    T = []
    for st in ('ito', 'stratonovich'):
        for nt in ('diagonal', 'scalar', 'additive', 'general'):
            T.append((st, nt, 2, 2, 1))
    if tier != 'quick':
        for st in ('ito', 'stratonovich'):
            for nt in ('diagonal', 'general'):
                T.append((st, nt, 2, 2, 2))
    return T


def run(ctx):
    ctx.fn('AdjointSDE.__init__', 'AdjointSDE.get_state', 'AdjointSDE.f_uncorrected / f_corrected_default / f_corrected_diagonal',
           'AdjointSDE.g_prod', 'AdjointSDE.f_and_g_prod_*', 'AdjointSDE.g_prod_and_gdg_prod_diagonal', 'AdjointSDE._f_uncorrected / _f_corrected_* / _g_prod',
           'misc.vjp', 'misc.jvp', 'misc.flatten', 'misc.flat_to_shape', 'ForwardSDE.f / g / f_and_g / g_prod / f_and_g_prod / prod')
    ctx.stubs.append('none: real autograd engine traced through __torch_dispatch__')
    ctx.bounds = {'dims': 'd=2, m=2, batch 1 (quick) / 2', 'generic f,g': 'polynomial degree (1,2) in (t,y), symbolic coefficients as nn.Parameters, plus a parameter the SDE does not use',
                  'combinations': '2 sde types x 4 noise types'}
    ctx.assumptions += ['prescribed adjoint drift (derived from the backward Stratonovich adjoint converted to Ito form): '
                        'a.df/dxi - [Ito, non-additive] sum a_i g_lj d2 g_ij / dy_l dxi;  state part -(f - sum_j (g_j.grad) g_j)']
    ctx.outside += ['degrees / sizes above the bound', 'float rounding']
    check_fields(ctx)


def check_fields(ctx, prefix='', sig_prefix='', extra=None):
    """the adjoint-vector-field identities; also discharged by C09 as the lemma its convergence argument rests on"""
    extra = extra or {}
    tasks = tasks_for(ctx.tier)
    ntw = 0
    for t, (st_, res) in zip(tasks, pmap(scenario, tasks)):
        name = f"{prefix}{t[0]},{t[1]} d={t[2]} m={t[3]} B={t[4]}"
        if st_ != 'ok':
            ctx.inconc(name, str(res)[:600]); continue
        ctx.paths += 1; ctx.queries += len(res['results']); ctx.solver_s += res['solver_s']; ctx.validated += 1
        ntw += bool(res['twin'])
        ctx.sample({'scenario': name, 'identities': len(res['results'])})
        bad = [r for r in res['results'] if r[1] != 'unsat']
        for n in res['notes']:
            ctx.violation(f"{sig_prefix}{t[0]},{t[1]}|graph|{n.split(':')[0]}", n, replay=dict(task=list(t), graph=True, **extra))
        if not bad:
            ctx.ok(name, f"{len(res['results'])} identities"); continue
        n, r, m = bad[0]
        if r in ('unknown',):
            ctx.inconc(name, f'{n}: {r}'); continue
        ctx.violation(f"{sig_prefix}{t[0]},{t[1]}|{n.split('[')[0]}", f"adjoint vector field {n} differs from the prescribed quantity ({r})",
                      replay=dict(task=list(t), which=n, model=m, **extra))
    ctx.twin(f'{prefix}twin', ntw == len(tasks))


def replay(data):
    """plain tensors at the model point: AdjointSDE output vs finite differences of the prescribed quantities"""
    r = data['replay']
    st, nt, d, m, B = r['task']
    env = r.get('model') or {}
    mk, sde, fsde, params, adj, y_aug, t, v, v2, y, a, mm = build(st, nt, d, m, B, symbolic=False, env=env)
    if r.get('graph'):
        with torch.no_grad():
            o = adj.f(t, y_aug)
        with torch.enable_grad():
            o2 = adj.f(t, y_aug)
        bad = o.requires_grad or not o2.requires_grad
        print('replay C11 graph discipline:', 'violated' if bad else 'ok')
        return bool(bad)
    if '/d' in r['which']:
        # derivative of a field with gradients enabled: autograd through the field's own graph vs central differences of
        # the field's no-grad values, in the augmented state and in every parameter
        nm = r['which'].split('/d')[0][1:]
        call = {'f': lambda ya: adj.f(t, ya), 'g_prod': lambda ya: adj.g_prod(t, ya, v), 'f_and_g_prod0': lambda ya: adj.f_and_g_prod(t, ya, v)[0],
                'f_and_g_prod[0]': lambda ya: adj.f_and_g_prod(t, ya, v)[0], 'gdg': lambda ya: adj.g_prod_and_gdg_prod(t, ya, v, v2)[1]}[nm]
        with torch.enable_grad():
            ya = y_aug.detach().clone().requires_grad_(True)
            o = call(ya)
            w_ = 0.3 + 0.07 * torch.arange(o.numel(), dtype=o.dtype).reshape(o.shape)
            gs = torch.autograd.grad((o * w_).sum(), [ya] + params, allow_unused=True)
        worst = 0.0
        eps = 1e-6
        nd = B * d * 2
        for tensor, g_ in zip([y_aug] + params, gs):
            flat = tensor.data.reshape(-1)
            for k in range(min(flat.numel(), nd if tensor is y_aug else flat.numel())):
                old_ = float(flat[k])
                vals = []
                for sgn in (1, -1):
                    flat[k] = old_ + sgn * eps
                    with torch.no_grad():
                        vals.append(float((call(y_aug.detach().clone()) * w_).sum()))
                flat[k] = old_
                fd = (vals[0] - vals[1]) / (2 * eps)
                got_ = 0.0 if g_ is None else float(g_.reshape(-1)[k])
                worst = max(worst, abs(fd - got_) / max(1.0, abs(fd)))
        print('replay C11: max relative |autograd derivative of the field - central difference| =', worst)
        return worst > 1e-5
    # oracle evaluated numerically through the symbolic trace at the same point
    mk2, sde2, fsde2, params2, adj2, y_aug2, t2, vv, vv2, y2, a2, _ = build(st, nt, d, m, B, symbolic=True, env=env)
    which = r['which'].split('[')[0]
    with torch.no_grad():
        got = {'f': lambda: adj.f(t, y_aug), 'g_prod': lambda: adj.g_prod(t, y_aug, v),
               'gdg': lambda: adj.g_prod_and_gdg_prod(t, y_aug, v, v2)[1],
               'f_and_g_prod.f': lambda: adj.f_and_g_prod(t, y_aug, v)[0], 'f_and_g_prod.g': lambda: adj.f_and_g_prod(t, y_aug, v)[1]}[which]()
    which = {'f_and_g_prod.f': 'f', 'f_and_g_prod.g': 'g_prod'}.get(which, which)
    want = oracle(st, nt, sde2, params2, y2, a2, t2, vv, vv2, B, d, mm, which)
    wv = [dag.to_float(w, mk2.env) for w in want]
    err = max(abs(float(g_) - w_) for g_, w_ in zip(got.reshape(-1).tolist(), wv))
    print('replay C11: max |AdjointSDE - prescribed| =', err)
    return err > 1e-8
