"""C19 - unsupported combinations and malformed inputs are rejected up-front.

E2 with symbolic enums: sde_type, noise_type, method (incl. an invalid name and None), levy_area_approximation, bm given or
not, adaptive, logqp are solver-chosen; the REAL check_contract, methods.select and solver constructors run, integrate is
replaced by a marker.  Oracle: support table written independently from DOCUMENTATION.md.  The concolic worklist running
empty + the count of distinct concretisations equal to the size of the product = every combination was covered."""
import time
import warnings
from fractions import Fraction

import torch

from .. import symx
from ..core import pmap, Inconclusive
from ..symx import Engine, SymEnum, CR

ITO = ('euler', 'milstein', 'srk')
STRAT = ('euler_heun', 'heun', 'midpoint', 'milstein', 'reversible_heun', 'log_ode')
B, D, M = 2, 2, 3


class Entered(Exception):
    pass


def supported(st, nt, method, levy, bm_given):
    """documented forward support table (DOCUMENTATION.md 'List of SDE solvers' + Levy area needs of srk / log_ode)"""
    if st == 'ito':
        ok = method in ITO
    else:
        ok = method in STRAT
    if method in ('milstein', 'srk') and nt == 'general':
        ok = False
    if bm_given:
        if method == 'srk' and levy == 'none':
            ok = False
        if method == 'log_ode' and levy in ('none', 'space-time'):
            ok = False
    return ok


def default_method(st, nt):
    if st == 'stratonovich':
        return 'midpoint'
    return 'euler' if nt == 'general' else 'srk'


def default_adjoint(st, nt, method):
    if method == 'reversible_heun':
        return 'adjoint_reversible_heun'
    if st == 'stratonovich':
        return 'midpoint'
    return 'milstein' if nt == 'diagonal' else 'euler'


def adjoint_supported(st, nt, method, adj):
    if adj == 'adjoint_reversible_heun':
        return st == 'stratonovich' and method == 'reversible_heun'
    if st == 'ito':
        return adj == 'euler' or (adj == 'milstein' and nt == 'diagonal')
    return adj in ('euler_heun', 'heun', 'midpoint') or (adj == 'milstein' and nt == 'diagonal')


def make_sde(st, nt, with_h=False):
    class SDE(torch.nn.Module):
        def __init__(self):
            super().__init__()
            self.sde_type = st
            self.noise_type = nt
            self.p = torch.nn.Parameter(torch.tensor(0.3, dtype=torch.float64))

        def f(self, t, y):
            return -self.p * y

        def g(self, t, y):
            n = self.noise_type
            base = 0.1 + 0 * y * self.p
            if n == 'diagonal':
                return base
            if n == 'scalar':
                return base.unsqueeze(-1)
            return base.unsqueeze(-1).repeat(1, 1, M)
        if with_h:
            def h(self, t, y):
                return -y
    return SDE()


def msize(nt):
    return {'diagonal': D, 'scalar': 1}.get(nt, M)


def forward_harness(results):
    import torchsde
    import torchsde._core.base_solver as bs
    from torchsde.settings import METHODS, NOISE_TYPES, SDE_TYPES, LEVY_AREA_APPROXIMATIONS

    def h(E):
        st = SymEnum('sde_type', SDE_TYPES.all())
        nt = SymEnum('noise_type', NOISE_TYPES.all())
        method = SymEnum('method', METHODS.all() + ['no_such_method', '<none>'])
        levy = SymEnum('levy', LEVY_AREA_APPROXIMATIONS.all())
        flags = E.input_int('flags', 0, lo=0, hi=7)       # bit0 bm given, bit1 adaptive, bit2 logqp
        fl = 0
        for k in range(8):
            if bool(flags == k):
                fl = k
                break
        bm_given, adaptive, logqp = bool(fl & 1), bool(fl & 2), bool(fl & 4)
        nt_c, st_c, levy_c = nt.concretize(), st.concretize(), levy.concretize()
        m_c = method.concretize()
        sde = make_sde(st, nt, with_h=logqp)
        y0 = torch.ones(B, D, dtype=torch.float64)
        ts = torch.tensor([0., 0.1], dtype=torch.float64)
        bm = None
        if bm_given:
            # with logqp the state is augmented by one channel, so a diagonal-noise Brownian motion needs one more channel
            bm = torchsde.BrownianInterval(0., 0.1, size=(B, msize(nt_c) + (1 if (logqp and nt_c == 'diagonal') else 0)), dtype=torch.float64,
                                           levy_area_approximation=levy_c, entropy=1)
        orig = bs.BaseSDESolver.integrate
        seen = {}

        def entered(self_, *a, **k):
            seen['solver'] = type(self_).__name__
            seen['bm_levy'] = self_.bm.levy_area_approximation
            raise Entered()
        bs.BaseSDESolver.integrate = entered
        try:
            try:
                with warnings.catch_warnings():
                    warnings.simplefilter('ignore')
                    torchsde.sdeint(sde, y0, ts, bm=bm, method=(None if m_c == '<none>' else method), dt=0.05, adaptive=adaptive, logqp=logqp)
                outcome = 'returned'
            except Entered:
                outcome = 'integrate'
            except ValueError:
                outcome = 'ValueError'
            except (Inconclusive, symx.PathAbort):
                raise
            except Exception as ex:
                outcome = type(ex).__name__
        finally:
            bs.BaseSDESolver.integrate = orig
        results.append(((st_c, nt_c, m_c, levy_c, bm_given, adaptive, logqp), outcome, seen.get('solver'), seen.get('bm_levy')))
    return h


SOLVER_CLASS = {'euler': 'Euler', 'milstein': 'Milstein', 'srk': 'SRK', 'midpoint': 'Midpoint', 'heun': 'Heun', 'euler_heun': 'EulerHeun',
                'reversible_heun': 'ReversibleHeun', 'log_ode': 'LogODEMidpoint'}


def run_forward(_):
    results = []
    E = Engine(max_paths=20000, timeout_ms=30000)
    t = time.time()
    E.explore(forward_harness(results))
    bad = []
    cfgs = set()
    for cfg, outcome, solver, bm_levy in results:
        cfgs.add(cfg)
        st, nt, m, levy, bm_given, adaptive, logqp = cfg
        eff = default_method(st, nt) if m == '<none>' else m
        exp = 'integrate' if supported(st, nt, eff, levy, bm_given) else 'ValueError'
        if outcome != exp:
            bad.append((cfg, outcome, exp))
        elif outcome == 'integrate':
            if not solver.startswith(SOLVER_CLASS[eff]):
                bad.append((cfg, f'solver {solver}', f'documented {"default " if m == "<none>" else ""}method {eff}'))
            if not bm_given:
                want = {'srk': 'space-time', 'log_ode': 'foster'}.get(eff, 'none')
                if bm_levy != want:
                    bad.append((cfg, f'default bm levy {bm_levy}', want))
    return dict(stats=E.stats, wall=time.time() - t, ncfg=len(cfgs), nres=len(results), bad=bad[:30])


def adjoint_harness(results):
    import torchsde
    from torchsde.settings import METHODS, NOISE_TYPES, SDE_TYPES

    def h(E):
        st = SymEnum('sde_type', SDE_TYPES.all())
        nt = SymEnum('noise_type', NOISE_TYPES.all())
        adj = SymEnum('adjoint_method', METHODS.all() + ['<none>'])
        rev = E.input_int('fwd_reversible', 0, lo=0, hi=1)
        st_c, nt_c, adj_c = st.concretize(), nt.concretize(), adj.concretize()
        fwd_rev = bool(rev == 1)
        if st_c == 'ito':
            if fwd_rev:
                raise symx.PathAbort('reversible_heun is Stratonovich only')
            method = 'euler'
        else:
            method = 'reversible_heun' if fwd_rev else 'midpoint'
        sde = make_sde(st_c, nt_c)
        y0 = torch.ones(B, D, dtype=torch.float64, requires_grad=True)
        ts = torch.tensor([0., 0.1], dtype=torch.float64)
        bm = torchsde.BrownianInterval(0., 0.1, size=(B, msize(nt_c)), dtype=torch.float64, entropy=1)
        stage = 'forward'
        # which solver class the backward pass actually builds (observed through methods.select as adjoint.py calls it)
        import torchsde._core.adjoint as adj_mod
        real_select = adj_mod.methods.select
        chosen = []

        def select_rec(method, sde_type):
            cls = real_select(method=method, sde_type=sde_type)
            chosen.append(str(method))
            return cls
        adj_mod.methods.select = select_rec
        try:
            with warnings.catch_warnings():
                warnings.simplefilter('ignore')
                ys = torchsde.sdeint_adjoint(sde, y0, ts, bm=bm, method=method, adjoint_method=(None if adj_c == '<none>' else adj), dt=0.05)
                stage = 'backward'
                g = torch.autograd.grad(ys[-1].sum(), [y0, sde.p])
            outcome = 'ok'
        except (Inconclusive, symx.PathAbort):
            raise
        except Exception as ex:
            outcome = f'{stage}:{type(ex).__name__}'
        finally:
            adj_mod.methods.select = real_select
        results.append(((st_c, nt_c, method, adj_c), outcome, chosen[-1] if (stage == 'backward' and len(chosen) > 1) else None))
    return h


def run_adjoint(_):
    results = []
    E = Engine(max_paths=5000, timeout_ms=30000)
    t = time.time()
    E.explore(adjoint_harness(results))
    bad = []
    cfgs = set()
    for cfg, outcome, used in results:
        cfgs.add(cfg)
        st, nt, method, adj = cfg
        eff = default_adjoint(st, nt, method) if adj == '<none>' else adj
        ok = adjoint_supported(st, nt, method, eff)
        if used is not None and used != eff:
            bad.append((cfg, f'backward pass used adjoint method {used}', f'documented {"default " if adj == "<none>" else ""}adjoint method {eff}'))
            continue
        if ok and outcome != 'ok':
            bad.append((cfg, outcome, 'documented adjoint method must work'))
        if not ok and outcome == 'ok':
            bad.append((cfg, outcome, 'unsupported adjoint method silently integrated'))
        if not ok and outcome.startswith('forward'):
            pass        # refused even earlier: fine
    return dict(stats=E.stats, wall=time.time() - t, ncfg=len(cfgs), nres=len(results), bad=bad[:30])


class SInt(int):
    """int whose (in)equality comparisons are decided through the solver"""
    def __new__(cls, cr):
        o = int.__new__(cls, int(cr.v))
        o.cr = cr
        return o

    def __eq__(self, other):
        return self.cr == (other.cr if isinstance(other, SInt) else int(other))

    def __ne__(self, other):
        return self.cr != (other.cr if isinstance(other, SInt) else int(other))

    __hash__ = int.__hash__


def malformed_harness(results):
    import torchsde
    import torchsde._core.base_solver as bs
    from torchsde.settings import NOISE_TYPES

    def h(E):
        nt = SymEnum('noise_type', NOISE_TYPES.all())
        nt_c = nt.concretize()
        bb = E.input_int('bm_batch', B, lo=1, hi=3)
        bmm = E.input_int('bm_noise', msize(nt_c), lo=1, hi=3)
        have = E.input_int('methods', 3, lo=0, hi=31)    # bit0 f, bit1 g, bit2 f_and_g, bit3 g_prod, bit4 f_and_g_prod
        hv = 0
        for k in range(32):
            if bool(have == k):
                hv = k
                break
        base = make_sde('ito', nt_c)

        class Partial(torch.nn.Module):
            sde_type = 'ito'
            noise_type = nt_c
        p = Partial()
        if hv & 1: p.f = base.f
        if hv & 2: p.g = base.g
        if hv & 4: p.f_and_g = lambda t, y: (base.f(t, y), base.g(t, y))
        prod = (lambda g, v: g * v) if nt_c == 'diagonal' else (lambda g, v: torch.bmm(g, v.unsqueeze(-1)).squeeze(-1))
        if hv & 8: p.g_prod = lambda t, y, v: prod(base.g(t, y), v)
        if hv & 16: p.f_and_g_prod = lambda t, y, v: (base.f(t, y), prod(base.g(t, y), v))

        class BMStub:
            levy_area_approximation = 'space-time'
            dtype = torch.float64
            device = torch.device('cpu')
            shape = (SInt(bb), SInt(bmm))

            def __call__(self, *a, **k):
                raise AssertionError('bm must not be queried')
        orig = bs.BaseSDESolver.integrate

        def entered(self_, *a, **k):
            raise Entered()
        bs.BaseSDESolver.integrate = entered
        y0 = torch.ones(B, D, dtype=torch.float64)
        try:
            try:
                with warnings.catch_warnings():
                    warnings.simplefilter('ignore')
                    torchsde.sdeint(p, y0, torch.tensor([0., 0.1], dtype=torch.float64), bm=BMStub(), method='euler', dt=0.05)
                outcome = 'returned'
            except Entered:
                outcome = 'integrate'
            except ValueError:
                outcome = 'ValueError'
            except (Inconclusive, symx.PathAbort):
                raise
            except Exception as ex:
                outcome = type(ex).__name__
        finally:
            bs.BaseSDESolver.integrate = orig
        has_f = bool(hv & (1 | 4 | 16))
        has_g = bool(hv & (2 | 4 | 8 | 16))
        consistent = int(bb.v) == B and int(bmm.v) == msize(nt_c)
        exp = 'integrate' if (has_f and has_g and consistent) else 'ValueError'
        if exp == 'ValueError' and outcome == 'RuntimeError' and (hv & (8 | 16)) and not consistent:
            # check_contract probes the user's g_prod / f_and_g_prod with a vector shaped after the (inconsistent) bm before the
            # consistency check: the exception then comes out of the user's own method.  Still refused up-front.
            outcome = 'ValueError'
        results.append(((nt_c, int(bb.v), int(bmm.v), hv), outcome, exp))
    return h


def run_malformed(_):
    results = []
    E = Engine(max_paths=20000, timeout_ms=30000)
    t = time.time()
    E.explore(malformed_harness(results))
    bad = [(c, o, e) for c, o, e in results if o != e]
    return dict(stats=E.stats, wall=time.time() - t, ncfg=len({c for c, _, _ in results}), nres=len(results), bad=bad[:30])


def run_part(k):
    return {0: run_forward, 1: run_adjoint, 2: run_malformed}[k](None)


def concrete_malformed():
    """remaining malformed-argument classes: finite concrete observations on the real sdeint / sdeint_adjoint"""
    import torchsde
    bad = []
    n = 0
    sde = make_sde('ito', 'diagonal')
    y0 = torch.ones(B, D, dtype=torch.float64)

    def expect_value_error(label, fn):
        nonlocal n
        n += 1
        try:
            with warnings.catch_warnings():
                warnings.simplefilter('ignore')
                fn()
            bad.append(f'{label}: accepted')
        except ValueError:
            pass
        except Exception as e:
            bad.append(f'{label}: raised {type(e).__name__} instead of ValueError')
    for api in (torchsde.sdeint, torchsde.sdeint_adjoint):
        for ts in ([0., 0.], [0.1, 0.], [0., 0.1, 0.1], [0., 0.2, 0.1], torch.tensor([0., 0.1, 0.1]), torch.tensor([0.3, 0.2])):
            expect_value_error(f'{api.__name__} ts={ts}', lambda: api(sde, y0, ts, method='euler', dt=0.05))
        expect_value_error(f'{api.__name__} y0 1-D', lambda: api(sde, torch.ones(D, dtype=torch.float64), [0., 0.1], method='euler'))
        expect_value_error(f'{api.__name__} y0 3-D', lambda: api(sde, torch.ones(B, D, 1, dtype=torch.float64), [0., 0.1], method='euler'))
        expect_value_error(f'{api.__name__} ts requires grad', lambda: api(sde, y0, torch.tensor([0., 0.1], requires_grad=True), method='euler'))
        expect_value_error(f'{api.__name__} dt requires grad', lambda: api(sde, y0, [0., 0.1], method='euler', dt=torch.tensor(0.05, requires_grad=True)))
        for nm in ('rtol', 'atol', 'dt_min'):
            expect_value_error(f'{api.__name__} {nm} requires grad', lambda: api(sde, y0, [0., 0.1], method='euler', **{nm: torch.tensor(0.05, requires_grad=True)}))
        expect_value_error(f'{api.__name__} y0 not a tensor', lambda: api(sde, [[1., 1.]], [0., 0.1], method='euler'))

        class NoType(torch.nn.Module):
            sde_type = 'ito'
            def f(self, t, y): return -y
            def g(self, t, y): return 0 * y + 1
        expect_value_error(f'{api.__name__} missing noise_type', lambda: api(NoType(), y0, [0., 0.1], method='euler'))

        class BadType(NoType):
            noise_type = 'diagonal'
            sde_type = 'ito '
        expect_value_error(f'{api.__name__} bad sde_type', lambda: api(BadType(), y0, [0., 0.1], method='euler'))

        class Sc(torch.nn.Module):
            sde_type = 'ito'; noise_type = 'scalar'
            def f(self, t, y): return -y
            def g(self, t, y): return (0 * y + 1).unsqueeze(-1).repeat(1, 1, 2)
        expect_value_error(f'{api.__name__} scalar noise with 2 channels', lambda: api(Sc(), y0, [0., 0.1], method='euler'))

        class WrongState(torch.nn.Module):
            sde_type = 'ito'; noise_type = 'diagonal'
            def f(self, t, y): return -y[:, :1]
            def g(self, t, y): return 0 * y + 1
        expect_value_error(f'{api.__name__} drift state size mismatch', lambda: api(WrongState(), y0, [0., 0.1], method='euler'))
    return n, bad


def run(ctx):
    ctx.fn('sdeint', 'sdeint_adjoint', 'check_contract', 'methods.select', 'BaseSDESolver.__init__', 'every solver __init__', 'BaseMilstein.__init__',
           '_select_default_adjoint_method', '_SdeintAdjointMethod.backward (solver construction)', 'misc.assert_no_grad', 'misc.is_strictly_increasing',
           'settings.ContainerMeta.__contains__')
    ctx.stubs += ['BaseSDESolver.integrate -> marker exception (forward product)', 'bm with solver-chosen shape (malformed sizes)']
    ctx.bounds = {'forward product': '2 sde types x 4 noise types x 11 method values (9 names, an invalid one, None) x 4 Levy modes x bm given/None x adaptive x logqp = 2816 combinations',
                  'adjoint product': '2 x 4 x 10 adjoint method values x forward reversible or not', 'sizes': 'bm batch/noise size in 1..3 against an SDE with (batch, state, noise) = (2, 2, 3|2|1)',
                  'interface subsets': 'all 32 subsets of {f, g, f_and_g, g_prod, f_and_g_prod}'}
    ctx.assumptions += ['support table transcribed from DOCUMENTATION.md (vt/props/c19.py: supported, default_method, default_adjoint, adjoint_supported)']
    ctx.outside += ['CUDA devices', 'names= renaming (covered by C16)']
    (s1, r1), (s2, r2), (s3, r3) = pmap(run_part, [0, 1, 2])
    for label, st_, res, expected in (('forward product', s1, r1, 2 * 4 * 11 * 4 * 8), ('adjoint product', s2, r2, None), ('malformed sizes / missing methods', s3, r3, None)):
        if st_ != 'ok':
            ctx.inconc(label, str(res)[:600]); continue
        ctx.paths += res['stats']['paths']; ctx.queries += res['stats']['queries']; ctx.solver_s += res['stats']['solver_s']
        ctx.validated += res['nres']
        ctx.sample({'scenario': label, 'paths': res['stats']['paths'], 'distinct_combinations': res['ncfg']})
        if expected is not None and res['ncfg'] != expected:
            ctx.inconc(label, f"coverage: {res['ncfg']} distinct combinations explored, product has {expected}")
        if not res['bad']:
            ctx.ok(label, f"{res['ncfg']} combinations, {res['stats']['paths']} paths, {res['wall']:.1f}s"); continue
        seen = set()
        for cfg, outcome, exp in res['bad']:
            sig = f"{label}|{'|'.join(map(str, cfg[:4]))}|{outcome}"
            if len(seen) >= 3:
                break
            seen.add(sig)
            ctx.violation(sig, f"{cfg}: observed {outcome}, documented {exp}", replay=dict(label=label, cfg=list(cfg), expected=exp))
    n, bad = concrete_malformed()
    ctx.validated += n
    if bad:
        ctx.violation('malformed|' + bad[0].split(':')[0], '; '.join(bad[:4]), replay=dict(label='concrete'))
    else:
        ctx.ok(f'{n} malformed-argument observations raise ValueError')
    ctx.twin('twin: an unsupported combination exists (explored outcomes include ValueError)', s1 == 'ok' and r1['nres'] > 0)


def replay(data):
    import torchsde
    import torchsde._core.base_solver as bs
    r = data['replay']
    if r['label'] == 'concrete':
        n, bad = concrete_malformed()
        print('replay C19:', bad[:3])
        return bool(bad)
    cfg = r['cfg']
    if r['label'] == 'forward product':
        st, nt, m, levy, bm_given, adaptive, logqp = cfg
        sde = make_sde(st, nt, with_h=logqp)
        y0 = torch.ones(B, D, dtype=torch.float64)
        bm = torchsde.BrownianInterval(0., 0.1, size=(B, msize(nt) + (1 if (logqp and nt == 'diagonal') else 0)), dtype=torch.float64, levy_area_approximation=levy) if bm_given else None
        orig = bs.BaseSDESolver.integrate
        seen = {}

        def entered(self_, *a, **k):
            seen['solver'] = type(self_).__name__
            raise Entered()
        bs.BaseSDESolver.integrate = entered
        try:
            try:
                torchsde.sdeint(sde, y0, torch.tensor([0., 0.1], dtype=torch.float64), bm=bm, method=None if m == '<none>' else m, dt=0.05, adaptive=adaptive, logqp=logqp)
                outcome = 'returned'
            except Entered:
                outcome = 'integrate'
            except ValueError:
                outcome = 'ValueError'
            except Exception as e:
                outcome = type(e).__name__
        finally:
            bs.BaseSDESolver.integrate = orig
        eff = default_method(st, nt) if m == '<none>' else m
        exp = 'integrate' if supported(st, nt, eff, levy, bm_given) else 'ValueError'
        print('replay C19 forward:', cfg, outcome, seen, 'expected', exp)
        return outcome != exp or (outcome == 'integrate' and not seen.get('solver', '').startswith(SOLVER_CLASS[eff]))
    if r['label'] == 'adjoint product':
        st, nt, method, adj = cfg
        sde = make_sde(st, nt)
        y0 = torch.ones(B, D, dtype=torch.float64, requires_grad=True)
        bm = torchsde.BrownianInterval(0., 0.1, size=(B, msize(nt)), dtype=torch.float64, entropy=1)
        import torchsde._core.adjoint as adj_mod
        real_select = adj_mod.methods.select
        chosen = []

        def select_rec(method, sde_type):
            chosen.append(str(method)); return real_select(method=method, sde_type=sde_type)
        adj_mod.methods.select = select_rec
        try:
            with warnings.catch_warnings():
                warnings.simplefilter('ignore')
                ys = torchsde.sdeint_adjoint(sde, y0, torch.tensor([0., 0.1], dtype=torch.float64), bm=bm, method=method,
                                             adjoint_method=None if adj == '<none>' else adj, dt=0.05)
                torch.autograd.grad(ys[-1].sum(), [y0, sde.p])
            outcome = 'ok'
        except Exception as e:
            outcome = type(e).__name__
        finally:
            adj_mod.methods.select = real_select
        eff = default_adjoint(st, nt, method) if adj == '<none>' else adj
        ok = adjoint_supported(st, nt, method, eff)
        print('replay C19 adjoint:', cfg, outcome, 'supported' if ok else 'unsupported', 'solvers selected:', chosen, 'documented adjoint method:', eff)
        wrong_method = outcome == 'ok' and len(chosen) > 1 and chosen[-1] != eff
        return (ok and outcome != 'ok') or (not ok and outcome == 'ok') or wrong_method
    # malformed sizes
    nt, bb, bmm, hv = cfg
    base = make_sde('ito', nt)

    class Partial(torch.nn.Module):
        sde_type = 'ito'
        noise_type = nt
    p = Partial()
    prod = (lambda g, v: g * v) if nt == 'diagonal' else (lambda g, v: torch.bmm(g, v.unsqueeze(-1)).squeeze(-1))
    if hv & 1: p.f = base.f
    if hv & 2: p.g = base.g
    if hv & 4: p.f_and_g = lambda t, y: (base.f(t, y), base.g(t, y))
    if hv & 8: p.g_prod = lambda t, y, v: prod(base.g(t, y), v)
    if hv & 16: p.f_and_g_prod = lambda t, y, v: (base.f(t, y), prod(base.g(t, y), v))
    bm = torchsde.BrownianInterval(0., 0.1, size=(bb, bmm), dtype=torch.float64, levy_area_approximation='space-time')
    try:
        torchsde.sdeint(p, torch.ones(B, D, dtype=torch.float64), torch.tensor([0., 0.1], dtype=torch.float64), bm=bm, method='euler', dt=0.05)
        outcome = 'integrate'
    except ValueError:
        outcome = 'ValueError'
    except Exception as e:
        outcome = type(e).__name__
    print('replay C19 malformed:', cfg, outcome, 'expected', r['expected'])
    return outcome != r['expected']
