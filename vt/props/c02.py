"""C02 - each solver step matches the stochastic Taylor expansion (E1 + graded series + z3 on coefficient identities).
C01 re-uses `analyse` with the strong order read from the real solver object."""
import itertools
import math
import time
from fractions import Fraction

import numpy as np
import torch
import z3

from .. import dag, sdes, series, taylor
from ..core import pmap, Inconclusive
from ..dag import Poly, to_poly, var
from ..symtorch import SymT, validate, _arr, OPS_SEEN
from ..series import SeriesCtx, to_series, dfact

torch.set_default_dtype(torch.float64)


def accepted_configs():
    """every (sde_type, method, noise_type) the REAL solver classes accept, + grad_free for Milstein"""
    from torchsde._core import methods
    out = []
    for st, ms in sdes.FORWARD_METHODS.items():
        for m in ms:
            cls = methods.select(m, st)
            for nt in cls.noise_types:
                out.append((st, m, nt, {}))
                if m == 'milstein' and nt != 'additive':
                    out.append((st, m, nt, {'grad_free': True}))
    return out


def build(st, method, nt, opts, d, m, degt, degy, symbolic=True, env=None, h=0.01, batch=1, seed=1):
    from torchsde._core import methods, base_sde
    mk = sdes.Maker(symbolic=symbolic, env=env, seed=seed)
    if nt == 'diagonal':
        m = d
    if nt == 'scalar':
        m = 1
    sde = sdes.PolySDE(mk, st, nt, d=d, m=m, degt=degt, degy=degy)
    fsde = base_sde.ForwardSDE(sde)
    bm = sdes.StubBM(mk, batch, m, levy=sdes.levy_for(method), h=h)
    solver = methods.select(method, st)(sde=fsde, bm=bm, dt=h, adaptive=False, rtol=0, atol=0, dt_min=0, options=dict(opts))
    t0 = mk('t0', (), values=0.3)
    hh = mk('h', (), values=h)
    y0 = mk('y0', (batch, d), values=np.tile(0.4 + 0.1 * np.arange(d), (batch, 1)))
    return mk, sde, fsde, bm, solver, t0, hh, y0, m


def step_nodes(st, method, nt, opts, d, m, degt, degy):
    mk, sde, fsde, bm, solver, t0, hh, y0, m = build(st, method, nt, opts, d, m, degt, degy)
    t1 = t0 + hh
    extra = solver.init_extra_solver_state(t0, y0)
    y1, _ = solver.step(t0, t1, y0, extra)
    validate(y1, mk.env)
    F = [to_poly(n) for n in sde.f(t0, y0).sym.reshape(-1)]
    g = sde.g(t0, y0)
    gs = g.sym[0]
    if nt == 'diagonal':
        G = [[to_poly(gs[i]) if i == j else Poly() for j in range(d)] for i in range(d)]
    else:
        G = [[to_poly(gs[i, j]) for j in range(m)] for i in range(d)]
    return mk, solver, [y1.sym[0, i] for i in range(d)], F, G, m


def _two_steps(st, method, nt, opts, d, m, degt, degy, symbolic, env=None):
    """the step under test on (a) an instance that already took a step of a different size from a different start and (b) a
    fresh instance; returns both results (y1, extra1)"""
    from torchsde._core import methods
    mk, sde, fsde, bm, solver, t0, hh, y0, m = build(st, method, nt, opts, d, m, degt, degy, symbolic=symbolic, env=env)
    hw = mk('hw', (), values=0.0173)
    yw = mk('yw', tuple(y0.shape), values=0.25 + 0.07 * np.arange(y0.numel()).reshape(tuple(y0.shape)))
    tw = t0 + hh
    solver.step(tw, tw + hw, yw, solver.init_extra_solver_state(tw, yw))          # history of the used instance
    used = solver.step(t0, t0 + hh, y0, solver.init_extra_solver_state(t0, y0))
    fresh_solver = methods.select(method, st)(sde=fsde, bm=bm, dt=solver.dt, adaptive=False, rtol=0, atol=0, dt_min=0, options=dict(opts))
    fresh = fresh_solver.step(t0, t0 + hh, y0, fresh_solver.init_extra_solver_state(t0, y0))
    return mk, used, fresh


def purity(task):
    """`step` is a function of its arguments only: no state hidden on the solver object survives from one step to the next
    (every step of a solve, not only the first one of a fresh solver, is then the step analysed against the Taylor expansion)"""
    st, method, nt, opts, d, m, degt, degy = task[:8]
    mk, used, fresh = _two_steps(st, method, nt, opts, d, m, degt, degy, True)
    from ..e1 import Z
    Zc = Z()
    bad = []
    flat = lambda r: list(r[0].sym.reshape(-1)) + [n for x in r[1] for n in x.sym.reshape(-1)]
    for k, (a, b) in enumerate(zip(flat(used), flat(fresh))):
        if a is b:
            continue
        r, model = Zc.equal(a, b)
        bad.append((k, 'sat' if r == 'sat' else ('structure' if r == 'unsat' else r), model))
        break
    return dict(config=list(task[:8]), bad=bad, queries=Zc.queries, solver_s=Zc.solver_s)


def expectation(ser, m, dWn, Un, ctx_grades):
    """exact Gaussian expectation over the increments: dW_j ~ N(0,h), U_j = h (dW_j/2 + H_j), H_j ~ N(0,h/12) indep.,
    any monomial containing a Levy-area symbol has zero mean at the grades used (odd in A).  Result: series in s."""
    out = {}
    for g, p in ser.items():
        dd = dict(g)
        if any(v.startswith('Ax') for v in dd):
            continue
        # substitute U_j
        terms = [({k: v for k, v in dd.items() if not k.startswith('U')}, Fraction(1))]
        for j in range(m):
            e = dd.get(Un[j], 0)
            for _ in range(e):
                new = []
                for mon, c in terms:
                    a = dict(mon); a['s'] = a.get('s', 0) + 2; a[dWn[j]] = a.get(dWn[j], 0) + 1
                    new.append((a, c / 2))
                    b = dict(mon); b['s'] = b.get('s', 0) + 2; b['H%d' % j] = b.get('H%d' % j, 0) + 1
                    new.append((b, c))
                terms = new
        for mon, c in terms:
            coef = c
            spow = mon.get('s', 0)
            ok = True
            for k, e in mon.items():
                if k == 's':
                    continue
                if e % 2:
                    ok = False
                    break
                if k.startswith('H'):
                    coef = coef * Fraction(dfact(e), 12 ** (e // 2))
                else:
                    coef = coef * dfact(e)
                spow += e
            if not ok:
                continue
            key = taylor.gm(s=spow)
            out[key] = out.get(key, Poly()) + p.scale(coef)
    return {k: v for k, v in out.items() if v}


def analyse(task):
    """returns dict with p, failing coefficients (if any), counts.  task = (st, method, nt, opts, d, m, degt, degy, p_override)"""
    st, method, nt, opts, d, m, degt, degy, p_override = task
    t_start = time.time()
    mk, solver, nodes, F, G, m = step_nodes(st, method, nt, opts, d, m, degt, degy)
    p = float(solver.strong_order) if p_override is None else p_override
    kmax = int(round(2 * p))
    dWn = [f"dW_0_{j}" for j in range(m)]
    Un = [f"U_0_{j}" for j in range(m)]
    An = [[f"Ax_0_{j}_{k}" for k in range(m)] for j in range(m)]
    grades = {'s': 1}
    for j in range(m):
        grades[dWn[j]] = 1
        grades[Un[j]] = 3
        for k in range(m):
            grades[An[j][k]] = 2
    K = kmax + 1
    ctx = SeriesCtx(grades, K, slack=4)
    small = set(grades) - {'s'}

    def leaf(name):
        if name == 'h':
            return {(('s', 2),): Poly.const(1)}
        if name in small:
            return {((name, 1),): Poly.const(1)}
        return {(): Poly.var(name)}
    # Ax_jk symbols are free for all (j,k); antisymmetrisation A = Ax - Ax^T happens in the stub: the oracle's A_jk (j<k)
    # is the series Ax_jk - Ax_kj
    orc = taylor.Oracle(F, G, [f"y0_0_{i}" for i in range(d)], 't0', dWn, Un, None)

    def A_term(j, k):
        if sdes.levy_for(method) not in ('davie', 'foster') or j == k:
            return {}
        return {taylor.gm(**{An[j][k]: 1}): Poly.const(1), taylor.gm(**{An[k][j]: 1}): Poly.const(-1)}
    orc.A_term = A_term
    fails = []
    nq = 0
    solver_s = 0.0
    zv = {}
    zenv = lambda v: zv.setdefault(v, z3.Real(v))
    memo = {}
    nterms = 0

    def decide(kind, i, mon, a, b):
        nonlocal nq, solver_s
        if not a and not b:
            return
        s = z3.Solver(); s.set('timeout', 120000)
        s.add(a.to_z3(zenv) != b.to_z3(zenv))
        t = time.time(); r = str(s.check()); solver_s += time.time() - t; nq += 1
        if r == 'unsat':
            return
        diff = a - b
        model = {}
        if r == 'sat':
            mdl = s.model()
            for dcl in mdl.decls():
                v = mdl[dcl]
                try:
                    model[dcl.name()] = float(Fraction(v.numerator_as_long(), v.denominator_as_long()))
                except Exception:
                    pass
        rec = dict(kind=kind, comp=i, mon=[list(x) for x in mon], result=r, diff=diff.show(3), nmon=len(diff), model=model)
        # the recorded known finding (grad-free Stratonovich Milstein) is ONE specific coefficient: the h^1.5 mean bias
        # (1/4) D^2 g_i[g, g] of the finite-difference Milstein term.  Any other failing coefficient - or a different value of
        # this one - gets a different signature and is reported as a violation.
        if kind == 'mean' and st == 'stratonovich' and method == 'milstein' and opts.get('grad_free') and [list(x) for x in mon] == [['s', 3]]:
            ynames = [f"y0_0_{k}" for k in range(d)]
            if nt == 'diagonal':
                expected = G[i][i].diff(ynames[i]).diff(ynames[i]) * G[i][i] * G[i][i]
            else:
                expected = Poly()
                for k in range(d):
                    for l in range(d):
                        expected = expected + G[i][0].diff(ynames[k]).diff(ynames[l]) * G[k][0] * G[l][0]
            rec['known_form'] = not (diff - expected.scale(Fraction(1, 4))) or not (diff + expected.scale(Fraction(1, 4)))
        fails.append(rec)
    for i in range(d):
        ser = ctx.trunc(to_series(nodes[i], ctx, leaf, memo), K)
        nterms += len(ser)
        S, M = orc.expansion(st, i, min(kmax, 3))
        mons = {g for g in ser if ctx.grade(g) <= kmax} | {g for g in S if ctx.grade(g) <= kmax}
        for g in sorted(mons):
            if any(e < 0 for _, e in g) and g not in S:
                # negative power of s surviving = a term that blows up as h -> 0
                pass
            decide('strong', i, g, ser.get(g, Poly()), S.get(g, Poly()))
        E = expectation({g: c for g, c in ser.items() if ctx.grade(g) <= kmax + 1}, m, dWn, Un, grades)
        monsE = {g for g in E if ctx.grade(g) <= kmax + 1} | {g for g in M if ctx.grade(g) <= kmax + 1}
        for g in sorted(monsE):
            decide('mean', i, g, E.get(g, Poly()), M.get(g, Poly()))
    return dict(config=[st, method, nt, opts, d, m, degt, degy], p=p, queries=nq, solver_s=solver_s, fails=fails,
                terms=nterms, wall=time.time() - t_start, ops=len(OPS_SEEN))


def exact_formulas(task):
    """Euler and derivative Milstein equal their textbook formulas EXACTLY (no truncation): z3 equality of the traced
    step against the formula built from dag.diff of the traced g."""
    st, method, nt, d, m, degt, degy = task
    from torchsde._core import methods
    mk, sde, fsde, bm, solver, t0, hh, y0, m = build(st, method, nt, {}, d, m, degt, degy)
    y1, _ = solver.step(t0, t0 + hh, y0, solver.init_extra_solver_state(t0, y0))
    validate(y1, mk.env)
    f = sde.f(t0, y0).sym[0]
    g = sde.g(t0, y0).sym[0]
    W = bm.W.sym[0]
    h = var('h')
    nq = 0; fails = []; solver_s = 0.0
    zv = {}
    zenv = lambda v: zv.setdefault(v, z3.Real(v))
    for i in range(d):
        if nt == 'diagonal':
            gdw = g[i] * W[i]
        else:
            gdw = None
            for j in range(m):
                t_ = g[i, j] * W[j]
                gdw = t_ if gdw is None else gdw + t_
        want = y0.sym[0, i] + f[i] * h + gdw
        if method == 'milstein':
            # + 1/2 sum_j g_j dg_ij/dy_. (dW_j^2 - h)  [Ito]   / dW_j^2 [Stratonovich]; diagonal: g_i dg_i/dy_i
            corr = None
            if nt == 'diagonal':
                dgi = dag.diff(g[i], f"y0_0_{i}")
                v = W[i] * W[i] - h if st == 'ito' else W[i] * W[i]
                corr = dag.lift(Fraction(1, 2)) * g[i] * dgi * v
            elif nt == 'scalar':
                tot = None
                for l in range(d):
                    t_ = g[l, 0] * dag.diff(g[i, 0], f"y0_0_{l}")
                    tot = t_ if tot is None else tot + t_
                v = W[0] * W[0] - h if st == 'ito' else W[0] * W[0]
                corr = dag.lift(Fraction(1, 2)) * tot * v
            if corr is not None:
                want = want + corr
        memo = {}; side = []
        a = dag.to_z3(y1.sym[0, i], zenv, memo, side); b = dag.to_z3(want, zenv, memo, side)
        s = z3.Solver(); s.set('timeout', 120000)
        s.add(*[c for _, c in side]); s.add(a != b)
        t = time.time(); r = str(s.check()); solver_s += time.time() - t; nq += 1
        if r != 'unsat':
            model = {}
            if r == 'sat':
                mdl = s.model()
                for dcl in mdl.decls():
                    try:
                        v_ = mdl[dcl]; model[dcl.name()] = float(Fraction(v_.numerator_as_long(), v_.denominator_as_long()))
                    except Exception:
                        pass
            fails.append(dict(kind='exact', comp=i, result=r, model=model))
    return dict(config=[st, method, nt, {}, d, m, degt, degy], queries=nq, solver_s=solver_s, fails=fails)


def task_list(tier):
    tasks = []
    for st, method, nt, opts in accepted_configs():
        heavy = method == 'srk' and nt != 'additive'
        if tier == 'quick':
            d, m, degt, degy = 1, (2 if nt in ('additive', 'general') else 1), 1, (2 if heavy else 3)
            tasks.append((st, method, nt, opts, d, m, degt, degy, None))
            tasks.append((st, method, nt, opts, 2, 2, 1, 1, None))      # cross-channel / cross-component terms (affine f, g)
        else:
            tasks.append((st, method, nt, opts, 1, (2 if nt in ('additive', 'general') else 1), 1, 3, None))
            # SRK with state-dependent diffusion at d=2 and quadratic f,g runs a worker out of memory: affine there
            tasks.append((st, method, nt, opts, 2, 2, 1, 1 if heavy else 2, None))
    return tasks


def signature(res, f):
    st, method, nt, opts = res['config'][:4]
    gf = ',grad_free' if opts.get('grad_free') else ''
    mon = '*'.join(f"{v}^{e}" for v, e in f.get('mon', [])) or '1'
    if f.get('known_form') is False:
        mon += '|not-the-recorded-bias'
    return f"{st},{method},{nt}{gf}|{f['kind']}|{mon}"


def report(ctx, res, pid='C02'):
    st, method, nt, opts, d, m, degt, degy = res['config']
    name = f"{st},{method},{nt},{opts or ''} d={d} m={m} deg=({degt},{degy}) p={res.get('p')}"
    ctx.paths += 1
    ctx.queries += res['queries']
    ctx.solver_s += res['solver_s']
    ctx.validated += 1
    if not res['fails']:
        ctx.ok(name, f"{res['queries']} coefficient identities, {res.get('terms', 0)} series terms, {res.get('wall', 0):.1f}s")
        return
    seen = set()
    for f in res['fails']:
        if f['result'] != 'sat':
            ctx.inconc(name, f"solver {f['result']} on {f['kind']} {f.get('mon')}")
            continue
        # one finding per (config, kind): the lowest-grade failing coefficient identifies it
        key = f['kind']
        if key in seen:
            continue
        seen.add(key)
        sig = signature(res, f)
        ctx.violation(sig, f"coefficient of {f.get('mon')} in step - Taylor is {f.get('diff', '?')} (advertised strong order {res.get('p')})",
                      replay=dict(config=res['config'], p=res.get('p'), kind=f['kind'], mon=f.get('mon'), model=f['model']))


class AliasSDE(torch.nn.Module):
    """a user SDE whose methods hand back tensors that are still live: the drift returns its argument (f(t, y) = y) and the
    diffusion returns a stored tensor (state-independent g, valid for every noise type).  alias=False computes the same
    functions into fresh tensors."""

    def __init__(self, mk, st, nt, d, m, alias):
        super().__init__()
        self.sde_type, self.noise_type, self.alias = st, nt, alias
        shape = (1, d) if nt == 'diagonal' else (1, d, 1 if nt == 'scalar' else m)
        self.G = mk('Gc', shape, values=0.2 + 0.1 * np.arange(int(np.prod(shape))).reshape(shape))

    def f(self, t, y):
        return y if self.alias else 1.0 * y

    def g(self, t, y):
        return self.G if self.alias else 1.0 * self.G


def _alias_run(st, method, nt, opts, nograd, alias, symbolic, d=2, m=2):
    from torchsde._core import methods, base_sde
    import contextlib
    mk = sdes.Maker(symbolic=symbolic, seed=3)
    mm = d if nt == 'diagonal' else (1 if nt == 'scalar' else m)
    sde = AliasSDE(mk, st, nt, d, mm, alias)
    fsde = base_sde.ForwardSDE(sde)
    h = 0.01
    bm = sdes.StubBM(mk, 1, mm, levy=sdes.levy_for(method), h=h)
    solver = methods.select(method, st)(sde=fsde, bm=bm, dt=h, adaptive=False, rtol=0, atol=0, dt_min=0, options=dict(opts))
    t0 = mk('t0', (), values=0.3); hh = mk('h', (), values=h)
    y0 = mk('y0', (1, d), values=(0.4 + 0.1 * np.arange(d)).reshape(1, d))
    snap = lambda x: (list(x.sym.reshape(-1)) if isinstance(x, SymT) else x.detach().clone())
    before = (snap(y0), snap(sde.G))
    with (torch.no_grad() if nograd else contextlib.nullcontext()):
        extra = solver.init_extra_solver_state(t0, y0)
        y1, extra1 = solver.step(t0, t0 + hh, y0, extra)
        keep1 = snap(y1)
        y2, _ = solver.step(t0 + hh, t0 + hh + hh, y1, extra1)
    after = (snap(y0), snap(sde.G))
    return mk, before, after, keep1, snap(y2)


def aliasing(task):
    """step() must not write into tensors it did not create: the state it is given and whatever the user's drift/diffusion
    return may be live elsewhere (f returning its argument, g returning a stored tensor).  Two consecutive steps of the
    aliasing SDE equal those of the same SDE computed into fresh tensors, and y0 / the stored diffusion are untouched."""
    st, method, nt, opts, nograd = task
    from ..e1 import Z
    mk, b_a, a_a, y1a, y2a = _alias_run(st, method, nt, opts, nograd, True, True)
    _, _, _, y1f, y2f = _alias_run(st, method, nt, opts, nograd, False, True)
    bad = []
    for nm, x, y in (('y0', b_a[0], a_a[0]), ('stored diffusion', b_a[1], a_a[1])):
        if any(p is not q for p, q in zip(x, y)):
            bad.append((f'{nm} was modified in place by step()', 'structure', {}))
    Zc = Z()
    for nm, x, y in (('first step', y1a, y1f), ('second step', y2a, y2f)):
        for k, (p, q) in enumerate(zip(x, y)):
            r, model = Zc.equal(p, q)
            if r != 'unsat':
                bad.append((f'{nm}: component {k} differs between the aliasing SDE and the same SDE computed into fresh tensors', r, model)); break
    return dict(task=list(task), bad=bad, queries=Zc.queries, solver_s=Zc.solver_s)


def aliasing_obligations(ctx, only=None):
    at = []
    for st, method, nt, opts in accepted_configs():
        if only and method not in only:
            continue
        at.append((st, method, nt, opts, False))
        if nt in ('diagonal', 'additive'):
            at.append((st, method, nt, opts, True))        # inference mode: torch.no_grad()
    for t, (st_, res) in zip(at, pmap(aliasing, at)):
        gf = ',grad_free' if t[3].get('grad_free') else ''
        name = f"step does not write into live tensors {t[:3]}{gf}" + (' no_grad' if t[4] else '')
        if st_ != 'ok':
            ctx.inconc(name, str(res)[:600]); continue
        ctx.paths += 1; ctx.queries += res['queries']; ctx.solver_s += res['solver_s']
        if not res['bad']:
            ctx.ok(name); continue
        what, r, model = res['bad'][0]
        if r == 'unknown':
            ctx.inconc(name, 'solver unknown'); continue
        ctx.violation(f"{t[0]},{t[1]},{t[2]}{gf}|aliasing" + ('|no_grad' if t[4] else ''), what, replay=dict(config=list(t), kind='aliasing', model=model, p=None, mon=None))


def _replay_aliasing(task):
    st, method, nt, opts, nograd = task
    _, b_a, a_a, y1a, y2a = _alias_run(st, method, nt, opts, nograd, True, False)
    _, _, _, y1f, y2f = _alias_run(st, method, nt, opts, nograd, False, False)
    mut = max(float((x - y).abs().max()) for x, y in zip(b_a, a_a))
    diff = max(float((y1a - y1f).abs().max()), float((y2a - y2f).abs().max()))
    print(f'replay C02 aliasing: inputs changed by {mut}, two-step result differs from the fresh-tensor SDE by {diff}')
    return mut > 0 or diff > 1e-12


def purity_obligations(ctx):
    """every step, not only the first step of a fresh solver object: step() must not depend on the solver's history"""
    pt = [(st, method, nt, opts, 2, 2, 1, 1) for st, method, nt, opts in accepted_configs()]
    for t, (st_, res) in zip(pt, pmap(purity, pt)):
        gf = ',grad_free' if t[3].get('grad_free') else ''
        name = f"step is a function of its arguments only {t[:3]}{gf}"
        if st_ != 'ok':
            ctx.inconc(name, str(res)[:600]); continue
        ctx.paths += 1; ctx.queries += res['queries']; ctx.solver_s += res['solver_s']
        if not res['bad']:
            ctx.ok(name); continue
        k, r, model = res['bad'][0]
        if r == 'unknown':
            ctx.inconc(name, 'solver unknown'); continue
        ctx.violation(f"{t[0]},{t[1]},{t[2]}{gf}|step-depends-on-history", f"output component {k} of step() differs between a used and a fresh solver object ({r})",
                      replay=dict(config=res['config'], kind='purity', model=model, p=None, mon=None))


def run(ctx):
    ctx.fn('every solver __init__ (per-instance state)', 'methods.select', 'Euler.step', 'MilsteinIto.step', 'MilsteinStratonovich.step', 'BaseMilstein.step (grad_free)',
           'SRK.diagonal_or_scalar_step', 'SRK.additive_step', 'EulerHeun.step', 'Heun.step', 'Midpoint.step',
           'LogODEMidpoint.step', 'ReversibleHeun.step', 'ReversibleHeun.init_extra_solver_state',
           'ForwardSDE.f_and_g_prod / g_prod / prod / g_prod_and_gdg_prod_* / dg_ga_jvp_column_sum_v1',
           'misc.vjp', 'misc.jvp', 'tableaus.srid2', 'tableaus.sra1')
    ctx.stubs.append('Brownian motion -> stub returning symbols (dW, U, A=Ax-Ax^T) for the single queried interval')
    ctx.bounds = {'state/noise dims': 'd=1 generic + d=2,m=2 affine (quick); d<=2, m<=2 degree (1,2) (thorough; SRK diagonal/scalar affine at d=2)', 'degree of generic f,g in (t,y)': '(1,3); SRK diagonal/scalar (1,2) in quick',
                  'series grade': '2p identically, 2p+1 in expectation', 'steps': 1}
    ctx.assumptions += ['PyTorch ATen op semantics as modelled by the per-op handlers (validated against the real kernels at the base point on every run)',
                        'stochastic Taylor expansion (Kloeden-Platen ch.5) as implemented in vt/taylor.py',
                        'Gaussian moments of (dW, H) with U = h (dW/2 + H), H ~ N(0, h/12) independent; E[A]=0']
    ctx.outside += ['grades above the truncation', 'd, m above the bound', 'float rounding']
    tasks = task_list(ctx.tier)
    results = pmap(analyse, tasks)
    for t, (st_, res) in zip(tasks, results):
        if st_ != 'ok':
            ctx.inconc(str(t[:4]), str(res)[:600])
            continue
        ctx.sample({'config': res['config'], 'p': res['p'], 'identities': res['queries']})
        report(ctx, res)
    purity_obligations(ctx)
    aliasing_obligations(ctx)
    # exact textbook formulas
    ex = []
    for st, method, nt in [('ito', 'euler', 'diagonal'), ('ito', 'euler', 'scalar'), ('ito', 'euler', 'additive'), ('ito', 'euler', 'general'),
                           ('ito', 'milstein', 'diagonal'), ('ito', 'milstein', 'scalar'), ('ito', 'milstein', 'additive'),
                           ('stratonovich', 'milstein', 'diagonal'), ('stratonovich', 'milstein', 'scalar'),
                           ('stratonovich', 'milstein', 'additive')]:
        ex.append((st, method, nt, 2, 2, 1, 2))
    for t, (st_, res) in zip(ex, pmap(exact_formulas, ex)):
        name = f"exact textbook formula {t[:3]} d=2"
        if st_ != 'ok':
            ctx.inconc(name, str(res)[:600]); continue
        ctx.paths += 1; ctx.queries += res['queries']; ctx.solver_s += res['solver_s']
        if not res['fails']:
            ctx.ok(name)
        else:
            f = res['fails'][0]
            if f['result'] != 'sat':
                ctx.inconc(name, f['result'])
            else:
                ctx.violation(f"{t[0]},{t[1]},{t[2]}|exact", "step differs from its textbook formula",
                              replay=dict(config=res['config'], kind='exact', model=f['model'], p=None, mon=None))
    # reachability twin: Euler claimed to be order 1.0 on diagonal noise must be refuted
    st_, res = pmap(analyse, [('ito', 'euler', 'diagonal', {}, 1, 1, 1, 2, 1.0)])[0]
    ctx.twin('twin: Euler (diagonal noise) at claimed order 1.0 must fail', st_ == 'ok' and any(f['result'] == 'sat' for f in res['fails']))


# ---------------------------------------------------------------- replay (plain tensors, real solver, numeric orders)
def _numeric_step(config, env, h, z, Hn):
    """real solver step on plain tensors; batch = quadrature/sample rows; returns y1 (rows, d)"""
    st, method, nt, opts, d, m, degt, degy = config
    rows = z.shape[0]
    e = dict(env)
    mk, sde, fsde, bm, solver, t0, hh, y0, m = build(st, method, nt, opts, d, m, degt, degy, symbolic=False, env=e, h=h, batch=rows)
    bm.W = torch.tensor(z * math.sqrt(h))
    bm.U = torch.tensor(h * (0.5 * z * math.sqrt(h) + Hn * math.sqrt(h / 12)))
    t0 = torch.tensor(float(env.get('t0', 0.3)))
    y0 = torch.tensor(np.tile([float(env.get(f'y0_0_{i}', 0.4)) for i in range(d)], (rows, 1)))
    t1 = t0 + h
    y1, _ = solver.step(t0, t1, y0, solver.init_extra_solver_state(t0, y0))
    return y1.detach().numpy(), bm


def replay(data):
    r = data['replay']
    config = r['config']
    if r['kind'] == 'aliasing':
        return _replay_aliasing(config)
    st, method, nt, opts, d, m, degt, degy = config
    env = dict(r.get('model') or {})
    if r['kind'] == 'exact':
        return _replay_exact(config, env)
    if r['kind'] == 'aliasing':
        return _replay_aliasing(config)
    if r['kind'] == 'purity':
        mk, used, fresh = _two_steps(st, method, nt, opts, d, m, degt, degy, False, env=dict(env))
        flat = lambda q: [q[0]] + list(q[1])
        diff = max(float((a.detach() - b.detach()).abs().max()) for a, b in zip(flat(used), flat(fresh)))
        same = all(torch.equal(a.detach(), b.detach()) for a, b in zip(flat(used), flat(fresh)))
        print('replay C02 purity: max |used - fresh| =', diff)
        return not same
    p = float(r['p'])
    # symbolic oracle again (cheap) to get Taylor polynomials, evaluated numerically at the model
    mk, solver, nodes, F, G, m = step_nodes(st, method, nt, opts, d, m, degt, degy)
    full = dict(mk.env); full.update(env)
    dWn = [f"dW_0_{j}" for j in range(m)]; Un = [f"U_0_{j}" for j in range(m)]
    orc = taylor.Oracle(F, G, [f"y0_0_{i}" for i in range(d)], 't0', dWn, Un, None)
    kmax = int(round(2 * p))
    rng = np.random.RandomState(0)
    if r['kind'] == 'strong':
        z = rng.uniform(0.5, 1.5, size=(4, m)) * rng.choice([-1, 1], size=(4, m)); Hn = rng.uniform(-1, 1, size=(4, m))
        errs = []
        for h in (2.0 ** -8, 2.0 ** -12):
            y1, bm = _numeric_step(config, full, h, z, Hn)
            tay = np.zeros_like(y1)
            for i in range(d):
                S, _ = orc.expansion(st, i, min(kmax, 3))
                for row in range(z.shape[0]):
                    ev = dict(full); tot = 0.0
                    for g, c in S.items():
                        gr = sum(({'s': 1}.get(v, 3 if v.startswith('U') else 1)) * e for v, e in g)
                        if gr > kmax: continue
                        val = c.eval(ev)
                        for v, e in g:
                            if v == 's': val *= math.sqrt(h) ** e
                            elif v.startswith('dW'): val *= float(bm.W[row, int(v.split('_')[-1])]) ** e
                            elif v.startswith('U'): val *= float(bm.U[row, int(v.split('_')[-1])]) ** e
                        tot += val
                    tay[row, i] = tot
            errs.append(np.abs(y1 - tay).max())
        rate = math.log(errs[0] / max(errs[1], 1e-300)) / math.log(2.0 ** 4)
        print(f"replay C02 strong: |step - Taylor_(<=2p)| at h=2^-8, 2^-12: {errs}, observed local order {rate:.2f}, needed >= {p + 0.5}")
        return rate < p + 0.5 - 0.2
    # mean: Gauss-Hermite quadrature over (z, H) per channel
    xs, ws = np.polynomial.hermite_e.hermegauss(10)
    ws = ws / ws.sum()
    grids = list(itertools.product(range(len(xs)), repeat=2 * m))
    z = np.array([[xs[g[j]] for j in range(m)] for g in grids]); Hn = np.array([[xs[g[m + j]] for j in range(m)] for g in grids])
    w = np.array([np.prod([ws[k] for k in g]) for g in grids])
    errs = []
    for h in (2.0 ** -6, 2.0 ** -9):
        y1, bm = _numeric_step(config, full, h, z, Hn)
        mean = (w[:, None] * y1).sum(0)
        want = np.zeros(d)
        for i in range(d):
            _, M = orc.expansion(st, i, min(kmax, 3))
            for g, c in M.items():
                e = dict(g).get('s', 0)
                if e <= kmax + 1:
                    want[i] += c.eval(full) * math.sqrt(h) ** e
        errs.append(np.abs(mean - want).max())
    rate = math.log(errs[0] / max(errs[1], 1e-300)) / math.log(2.0 ** 3)
    print(f"replay C02 mean: |E step - E exact| at h=2^-6, 2^-9: {errs}, observed order {rate:.2f}, needed >= {p + 1}")
    return rate < p + 1 - 0.25


def _replay_exact(config, env):
    st, method, nt, opts, d, m, degt, degy = config
    mk, sde, fsde, bm, solver, t0, hh, y0, m = build(st, method, nt, {}, d, m, degt, degy, symbolic=False, env=env)
    y0 = y0.clone().requires_grad_(True)
    h = float(hh)
    y1, _ = solver.step(t0, t0 + hh, y0, ())
    f = sde.f(t0, y0); g = sde.g(t0, y0); W = bm.W
    if nt == 'diagonal':
        want = y0 + f * h + g * W
        if method == 'milstein':
            dg = torch.autograd.grad(g.sum(), y0, create_graph=False)[0]
            v = W ** 2 - h if st == 'ito' else W ** 2
            want = want + 0.5 * g * dg * v
    else:
        want = y0 + f * h + torch.bmm(g, W.unsqueeze(-1)).squeeze(-1)
        if method == 'milstein' and nt == 'scalar':
            J = torch.stack([torch.autograd.grad(g[0, i, 0], y0, retain_graph=True)[0][0] for i in range(d)])  # J[i,l] = d g_i / d y_l
            v = W[0, 0] ** 2 - h if st == 'ito' else W[0, 0] ** 2
            want = want + 0.5 * (J @ g[0, :, 0]) * v
    err = float((y1 - want).abs().max())
    print('replay C02 exact formula: max abs difference', err)
    return err > 1e-9
