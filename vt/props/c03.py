"""C03 - one path: additivity and Chen's relation, through the real BrownianInterval / derived classes."""
import math
import time
from fractions import Fraction

import numpy as np

from .. import dag, symx, brownian as B, bshim
from ..core import pmap, Inconclusive, frac_to_float
from ..dag import Node, lift
from ..symtorch import Unsupported
from ..symx import Engine, CR

HAVE_H = ('space-time', 'davie', 'foster')
HAVE_A = ('davie', 'foster')


def _ndigits(tol):
    return None if not tol else -int(math.log10(tol))


def harness(cfg, nprior):
    c = dict(B.DEFAULT); c.update(cfg)
    levy = c['levy']
    grid = _ndigits(c['tol'] if c['wrapper'] != 'tree' else (c['tol'] or 0.1))
    kw = {}
    if levy in HAVE_H: kw['return_U'] = True
    if levy in HAVE_A: kw['return_A'] = True

    def h(E):
        with B.LocMonitor() as mon:
            try:
                bm, top, lo, hi = B.make(E, cfg)
                for k in range(nprior):
                    a, b = B.sym_query(E, f'p{k}', lo, hi, Fraction(1 + k, 8) + lo.v, Fraction(5 + k, 8) + lo.v, grid)
                    bm(a, b, **kw)
                d = lo.v
                if grid is None:
                    s = E.input('s', d + Fraction(1, 4)); u = E.input('u', d + Fraction(1, 2)); t = E.input('t', d + Fraction(3, 4))
                else:
                    sc = 10 ** grid
                    klo, khi = int(lo.v * sc), int(hi.v * sc)
                    ks = E.input_int('ks', klo, lo=klo, hi=khi); ku = E.input_int('ku', klo + 1, lo=klo, hi=khi); kt = E.input_int('kt', klo + 2, lo=klo, hi=khi)
                    E.assume((ks < ku) & (ku < kt))
                    s = E.concretize_int(ks, klo, khi) / sc; u = E.concretize_int(ku, klo, khi) / sc; t = E.concretize_int(kt, klo, khi) / sc
                if grid is None:
                    E.assume((s >= lo) & (t <= hi) & (s < u) & (u < t))
                ncalls = len(mon.calls)
                r_st = bm(s, t, **kw)
                pieces = mon.calls[ncalls][2] if len(mon.calls) > ncalls else []
                r_su = bm(s, u, **kw)
                r_ut = bm(u, t, **kw)
                if not kw:
                    r_st, r_su, r_ut = (r_st,), (r_su,), (r_ut,)
                Wst, Wsu, Wut = r_st[0], r_su[0], r_ut[0]
                basis = B.noise_basis(*B.flat(Wst), *B.flat(Wsu), *B.flat(Wut))
                rev = c['wrapper'] == 'reverse'
                for i, (x, y, z) in enumerate(zip(B.flat(Wst), B.flat(Wsu), B.flat(Wut))):
                    B.prove_linear_eq(E, f'W-additive[{i}]', x, y + z, basis)
                if 'return_U' in kw:
                    Ust, Usu, Uut = r_st[1], r_su[1], r_ut[1]
                    basis = B.noise_basis(*B.flat(Ust), *B.flat(Usu), *B.flat(Uut), *basis)
                    for i, (x, y, z, wl, wr) in enumerate(zip(B.flat(Ust), B.flat(Usu), B.flat(Uut), B.flat(Wsu), B.flat(Wut))):
                        if rev:   # time reversal mirrors the relation: bm(-t,-s) is what is returned
                            rhs = y + z + (u.n - s.n) * wr
                        else:
                            rhs = y + z + (t.n - u.n) * wl
                        B.prove_linear_eq(E, f'U-chen[{i}]', x, rhs, basis)
                if 'return_A' in kw and len(c['size']) >= 2:
                    Ast = r_st[-1]
                    m = c['size'][-1]
                    A = Ast.sym.reshape(-1, m, m)
                    for bidx in range(A.shape[0]):
                        for i in range(m):
                            for j in range(i, m):
                                B.prove_eq(E, f'A-antisym[{bidx},{i},{j}]', A[bidx, i, j] + A[bidx, j, i], dag.ZERO)
                    # Chen fold over the stored pieces the query was answered from
                    if len(pieces) > 1 and not rev:
                        acc = None
                        for p in pieces:
                            Wp, _, Ap = bm(p._start, p._end, return_U=True, return_A=True) if c['wrapper'] == 'interval' else (None, None, None)
                            if Wp is None:
                                break
                            Wp = Wp.sym.reshape(-1, m); Ap = Ap.sym.reshape(-1, m, m)
                            if acc is None:
                                acc = (Wp, Ap)
                            else:
                                W0, A0 = acc
                                An = np.empty_like(A0)
                                for bidx in range(A0.shape[0]):
                                    for i in range(m):
                                        for j in range(m):
                                            An[bidx, i, j] = A0[bidx, i, j] + Ap[bidx, i, j] + lift(Fraction(1, 2)) * (
                                                W0[bidx, i] * Wp[bidx, j] - Wp[bidx, i] * W0[bidx, j])
                                acc = (W0 + Wp, An)
                        if acc is not None:
                            for bidx in range(A.shape[0]):
                                for i in range(m):
                                    for j in range(m):
                                        if i != j:
                                            B.prove_eq(E, f'A-chen-fold[{bidx},{i},{j}]', A[bidx, i, j], acc[1][bidx, i, j])
                # zero-length query
                z = bm(s, s, **kw)
                z = z if isinstance(z, tuple) else (z,)
                for part in z:
                    if part is None:
                        continue
                    vals = part.sym.reshape(-1) if hasattr(part, 'sym') else None
                    if vals is None:
                        if float(part.abs().sum()) != 0.0:
                            E.fail('zero-length', 'concrete', 'non-zero result for an empty interval')
                    else:
                        for v in vals:
                            B.prove_eq(E, 'zero-length', v, dag.ZERO)
                if rev:
                    base = bm.base_brownian
                    rb = base(-t, -s, **kw)
                    rb = rb if isinstance(rb, tuple) else (rb,)
                    for p, q in zip(r_st, rb):
                        for x, y in zip(B.flat(p), B.flat(q)):
                            if x is not y:
                                B.prove_eq(E, 'reverse==base(-t,-s)', x, y)
                # location lemma on every _loc call of this run
                for ta, tb, out in mon.calls:
                    if not out:
                        E.fail('loc-empty', 'concrete', 'empty piece list')
                        continue
                    rta = top._round(ta); rtb = top._round(tb)
                    E.prove('loc-first-start', out[0]._start == rta)
                    E.prove('loc-last-end', out[-1]._end == rtb)
                    for x, y in zip(out[:-1], out[1:]):
                        E.prove('loc-abut', x._end == y._start)
                for nd in B.nodes_of(top):
                    if nd._midway is not None:
                        l, r = nd._left_child, nd._right_child
                        E.prove('tree-partition', (l._start == nd._start) & (l._end == nd._midway) &
                                (r._start == nd._midway) & (r._end == nd._end))
                # float re-execution of this path on the unpatched module (times as float64): what real arithmetic cannot
                # see (e.g. a comparison decided by rounding error in tb - ta) shows up here
                if grid is not None or E.stats['paths'] % 4 == 0:
                    with symx.no_branch(), bshim.pristine():
                        inp = {k: float(v) for k, v in E.assignment_full().items()}
                        badf = numeric_check(c, nprior, inp)
                    E.float_checks = getattr(E, 'float_checks', 0) + 1
                    if badf:
                        E.fail('float-run:' + badf[0].split(' ')[0], 'float', f'on float64 times {inp}: {badf}')
            except (Inconclusive, Unsupported):
                raise
            except Exception as e:
                import traceback
                E.fail('crash', 'exception', f"{type(e).__name__}: {e} | {traceback.format_exc()[-600:]}")
    return h


def run_one(task):
    cfg, nprior, max_paths, timeout_ms = task
    B.setup()
    E = Engine(max_paths=max_paths, timeout_ms=timeout_ms)
    t = time.time()
    fails = E.explore(harness(cfg, nprior))
    return dict(cfg=cfg, nprior=nprior, stats=E.stats, wall=time.time() - t,
                samples=E.path_log[:3],
                failures=[dict(what=f.what, kind=f.kind, inputs={k: str(v) for k, v in f.inputs.items()}, detail=f.detail[:800])
                          for f in fails[:20]], nfail=len(fails))


def configs(tier):
    quick = [
        (dict(levy='none', size=(), cache_size=45), 1),
        (dict(levy='space-time', size=(2,), cache_size=1), 1),
        (dict(levy='space-time', size=(1,), cache_size=0, supply_W=True, supply_H=True, sym_ends=True), 0),
        (dict(levy='none', size=(1,), cache_size=None, supply_W=True, sym_ends=True), 0),
        (dict(levy='davie', size=(1, 2), cache_size=2), 1),
        (dict(levy='foster', size=(1, 2), cache_size=45), 0),
        (dict(levy='space-time', size=(1,), cache_size=45, dt=0.5), 1),
        (dict(levy='none', size=(1,), cache_size=45, tol=0.1, t1=Fraction(1, 2)), 1),
        (dict(levy='space-time', size=(1,), cache_size=45, tol=0.1, halfway=True, t1=Fraction(1, 2)), 0),
        # a time axis that crosses an integer (and a half-integer) with tol = 0.1: a rounding grid coarser than the tolerance
        # (wrong number of digits) is invisible on [0, 1/2], where every time collapses to 0 (seeded change C03d)
        (dict(levy='space-time', size=(1,), cache_size=45, tol=0.1, t0=Fraction(9, 10), t1=Fraction(8, 5)), 0),
        (dict(wrapper='reverse', levy='space-time', size=(1,), cache_size=45), 1),
        (dict(wrapper='path', levy='none', size=(1,)), 1),
        (dict(wrapper='tree', levy='none', size=(1,), tol=0.1, t1=Fraction(1, 2)), 0),
    ]
    if tier == 'quick':
        return quick
    more = []
    for cfg, k in quick:
        if cfg.get('levy') in ('davie', 'foster'):
            continue        # one more symbolic prior query with Levy area does not finish within the task budget (3000 s)
        more.append((cfg, min(k + 1, 2)))
    more += [
        (dict(levy='davie', size=(2, 2), cache_size=1), 1),
        (dict(levy='foster', size=(1, 2), cache_size=0), 0),
        (dict(levy='space-time', size=(1,), cache_size=1, dt=0.3), 0),      # a symbolic dt hint does not finish within the task budget
        (dict(levy='space-time', size=(1,), cache_size=3, tol=0.1, halfway=True, t1=Fraction(1, 2)), 1),
        (dict(wrapper='tree', levy='none', size=(1,), tol=0.1, t1=Fraction(1, 2)), 1),
        (dict(levy='space-time', size=(1,), cache_size=45, supply_W=True, supply_H=True, sym_ends=True), 1),
    ]
    return quick + more


def run(ctx):
    ctx.fn('BrownianInterval.__init__', 'BrownianInterval.__call__', '_Interval._loc', '_Interval._loc_inner',
           '_Interval._split', '_Interval._split_exact', '_Interval._increment_and_space_time_levy_area',
           '_Interval._increment_and_levy_area', '_davie_foster_approximation', '_H_to_U',
           'BrownianInterval._create_dependency_tree', 'ReverseBrownian.__call__', 'BrownianPath.__call__',
           'BrownianTree.__call__', '_LRUDict.__setitem__')
    ctx.stubs += bshim.STUBS
    quick = ctx.tier == 'quick'
    ctx.bounds = {'symbolic prior queries': '<=1 (quick) / <=2 (thorough)', 'query triple': 'symbolic s<u<t',
                  'sizes': '(), (1,), (2,), (1,2), (2,2)', 'tol': '0 or 0.1 (grid times)', 'end points': 'symbolic T0<T1 in lemma configs',
                  'max paths per config': 4000 if quick else 60000}
    ctx.assumptions += ['real arithmetic stands in for float64 (float constants read algebraically)',
                        'z3 decides each path; exploration is complete when the concolic worklist runs empty',
                        'numpy SeedSequence / torch.Generator are left real: distinct seeds -> distinct noise symbols']
    ctx.outside += ['tol>0 at unresolved (off-grid) times', 'more prior queries than the bound (argued by the location/tree-partition invariants proved on every path)']
    tasks = [(cfg, k, 4000 if quick else 60000, 60000 if quick else 300000) for cfg, k in configs(ctx.tier)]
    results = pmap(run_one, tasks)
    for (cfg, k, _, _), (st, res) in zip(tasks, results):
        name = f"{B.cfg_name(cfg)}|prior={k}"
        if st != 'ok':
            ctx.inconc(name, str(res)[:500])
            continue
        ctx.paths += res['stats']['paths']
        ctx.queries += res['stats']['queries']
        ctx.solver_s += res['stats']['solver_s']
        ctx.validated += res['stats']['paths']     # every path ran the real kernels concretely next to the symbolic payload
        ctx.sample({'config': name, 'paths': res['stats']['paths'], 'queries': res['stats']['queries'],
                    'example_inputs': res['samples'][:1]})
        if res['stats']['diverged']:
            ctx.notes.append(f"{name}: {res['stats']['diverged']} runs diverged from the predicted path")
        if not res['nfail']:
            ctx.ok(name, f"{res['stats']['paths']} paths, {res['stats']['queries']} queries, {res['wall']:.1f}s")
            continue
        seen = set()
        for f in res['failures']:
            what = f['what'].split('[')[0]
            if what in seen:
                continue
            seen.add(what)
            if f['kind'] == 'unknown':
                ctx.inconc(f"{name}|{what}", f"solver unknown: {f['detail'][:200]}")
                continue
            sig = f"{B.cfg_name(cfg)}|{what}"
            ctx.violation(sig, f"{f['what']} fails ({f['kind']}): {f['detail'][:300]}",
                          replay=dict(cfg=_jsonable(cfg), nprior=k, inputs=f['inputs'], what=what))
    # reachability twin: a deliberately wrong Chen relation must be refuted
    tw = twin()
    ctx.twin('twin: W(s,t) == W(s,u) + 2 W(u,t) must fail', tw)


def _jsonable(cfg):
    return {k: (str(v) if isinstance(v, Fraction) else (list(v) if isinstance(v, tuple) else v)) for k, v in cfg.items()}


def twin():
    B.setup()
    E = Engine(max_paths=50)
    cfg = dict(levy='none', size=(1,), cache_size=45)

    def h(E):
        bm, top, lo, hi = B.make(E, cfg)
        s = E.input('s', Fraction(1, 4)); u = E.input('u', Fraction(1, 2)); t = E.input('t', Fraction(3, 4))
        E.assume((s >= lo) & (t <= hi) & (s < u) & (u < t))
        a, b, c = bm(s, t), bm(s, u), bm(u, t)
        B.prove_eq(E, 'twin', a.sym[0], b.sym[0] + lift(2) * c.sym[0])
    fails = E.explore(h)
    return any(f.kind == 'sat' for f in fails)


# ---------------------------------------------------------------- replay on the pristine library
def replay(data):
    r = data['replay']
    cfg = dict(B.DEFAULT); cfg.update(r['cfg'])
    inp = {k: float(Fraction(v)) for k, v in r['inputs'].items()}
    bad = numeric_check(cfg, r['nprior'], inp)
    print('replay C03:', bad or 'all relations hold numerically')
    if r['what'] in ('A-chen-fold', 'loc-first-start', 'loc-last-end', 'loc-abut', 'tree-partition', 'reverse==base') and not bad:
        bad = _replay_internal(r, cfg, inp)
    return bool(bad)


def numeric_check(cfg, nprior, inp):
    """the C03 relations on the real library with ordinary float times / tensors; returns the list of violated relations"""
    import torch
    import torchsde
    size = tuple(cfg['size'])
    t0 = inp.get('T0', float(Fraction(cfg['t0']))); t1 = inp.get('T1', float(Fraction(cfg['t1'])))
    torch.manual_seed(0)
    W = torch.full(size, 0.3, dtype=torch.float64) if cfg['supply_W'] else None
    H = torch.full(size, -0.1, dtype=torch.float64) if cfg['supply_H'] else None
    dt = cfg['dt']
    if dt == 'sym': dt = inp.get('DT', 0.25)
    elif dt is not None: dt = float(Fraction(dt))
    levy = cfg['levy']
    kw = {}
    if levy in HAVE_H: kw['return_U'] = True
    if levy in HAVE_A: kw['return_A'] = True
    bad = []
    try:
        if cfg['wrapper'] in ('interval', 'reverse'):
            bm = torchsde.BrownianInterval(t0=t0, t1=t1, size=size if (W is None and H is None) else None, dtype=torch.float64,
                                           W=W, H=H, entropy=cfg['entropy'], levy_area_approximation=levy,
                                           cache_size=cfg['cache_size'], dt=dt, tol=cfg['tol'], halfway_tree=cfg['halfway'])
            if cfg['wrapper'] == 'reverse':
                bm = torchsde.ReverseBrownian(bm)
        elif cfg['wrapper'] == 'path':
            bm = torchsde.BrownianPath(t0=t0, w0=torch.zeros(size, dtype=torch.float64))
        else:
            bm = torchsde.BrownianTree(t0=t0, w0=torch.zeros(size, dtype=torch.float64), t1=t1, entropy=cfg['entropy'], tol=cfg['tol'] or 0.1)
        grid = _ndigits(cfg['tol'] if cfg['wrapper'] != 'tree' else (cfg['tol'] or 0.1))

        def tm(name):
            if grid is None:
                return inp[name]
            return inp['k' + name] / 10 ** grid
        for k in range(nprior):
            if grid is None:
                a, b = inp[f'p{k}a'], inp[f'p{k}b']
            else:
                a, b = inp[f'p{k}ka'] / 10 ** grid, inp[f'p{k}kb'] / 10 ** grid
            bm(a, b, **kw)
        s, u, t = tm('s'), tm('u'), tm('t')
        r_st, r_su, r_ut = bm(s, t, **kw), bm(s, u, **kw), bm(u, t, **kw)
        if not kw:
            r_st, r_su, r_ut = (r_st,), (r_su,), (r_ut,)
        tol = 1e-9
        if (r_st[0] - r_su[0] - r_ut[0]).abs().max() > tol:
            bad.append('W-additive')
        if 'return_U' in kw:
            if cfg['wrapper'] == 'reverse':
                rhs = r_su[1] + r_ut[1] + (u - s) * r_ut[0]
            else:
                rhs = r_su[1] + r_ut[1] + (t - u) * r_su[0]
            if (r_st[1] - rhs).abs().max() > tol:
                bad.append('U-chen')
        if 'return_A' in kw and len(size) >= 2:
            A = r_st[-1]
            if (A + A.transpose(-1, -2)).abs().max() > tol:
                bad.append('A-antisym')
        z = bm(s, s, **kw)
        z = z if isinstance(z, tuple) else (z,)
        if any(p is not None and p.abs().max() > 0 for p in z):
            bad.append('zero-length')
    except Exception as e:
        bad.append(f'crash {type(e).__name__}: {e}')
    return bad


def _replay_internal(r, cfg, inp):
    """relations that need the piece list: re-run with a recording wrapper around the real _loc (float times)"""
    import torch
    import torchsde
    from torchsde._brownian import brownian_interval as rbi
    calls = []
    orig = rbi._Interval._loc

    def _loc(self_, ta, tb):
        out = orig(self_, ta, tb)
        calls.append((ta, tb, list(out)))
        return out
    rbi._Interval._loc = _loc
    bad = []
    try:
        size = tuple(cfg['size'])
        bm = torchsde.BrownianInterval(t0=inp.get('T0', 0.), t1=inp.get('T1', 1.), size=size, dtype=torch.float64,
                                       entropy=cfg['entropy'], levy_area_approximation=cfg['levy'],
                                       cache_size=cfg['cache_size'], tol=cfg['tol'], halfway_tree=cfg['halfway'])
        for k in range(r['nprior']):
            bm(inp[f'p{k}a'], inp[f'p{k}b'])
        n = len(calls)
        W, A = bm(inp['s'], inp['t'], return_A=True) if cfg['levy'] in HAVE_A else (bm(inp['s'], inp['t']), None)
        pieces = calls[n][2]
        if pieces[0]._start != bm._round(inp['s']) or pieces[-1]._end != bm._round(inp['t']):
            bad.append('loc-ends')
        if any(x._end != y._start for x, y in zip(pieces[:-1], pieces[1:])):
            bad.append('loc-abut')
        if A is not None and len(pieces) > 1 and len(size) >= 2:
            accW = accA = None
            for p in pieces:
                Wp, Ap = bm(p._start, p._end, return_A=True)
                if accW is None:
                    accW, accA = Wp, Ap
                else:
                    accA = accA + Ap + 0.5 * (accW.unsqueeze(-1) * Wp.unsqueeze(-2) - Wp.unsqueeze(-1) * accW.unsqueeze(-2))
                    accW = accW + Wp
            if (A - accA).abs().max() > 1e-9:
                bad.append('A-chen-fold')
    except Exception as e:
        bad.append(f'crash {type(e).__name__}: {e}')
    finally:
        rbi._Interval._loc = orig
    print('replay C03 (internal):', bad)
    return bad
