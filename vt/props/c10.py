"""C10 - reversible Heun adjoint reproduces backprop gradients (E1): both gradient computations of the real code traced on
the same symbolic inputs; equality as real rational functions for y0 and every parameter."""
import numpy as np
import torch

from .. import dag, sdes, e1
from ..core import pmap
from ..symtorch import validate
from .c08 import solve


def scenario(task):
    nt, d, m, B, ts, dt, degy = task[:7]
    y0_grad = task[7] if len(task) > 7 else True
    extras_loss = task[8] if len(task) > 8 else False
    subset = task[9] if len(task) > 9 else False        # adjoint_params = the diffusion parameters only (a documented option)
    twice = task[10] if len(task) > 10 else False       # two backward passes through the same forward solve (retain_graph=True)
    grads = []
    fw = []
    for adjoint in (True, False):
        mk = sdes.Maker(symbolic=True, seed=21)
        kw = {'extra': True} if extras_loss else {}
        sde0 = None
        if subset:
            sde0 = sdes.PolySDE(mk, 'stratonovich', nt, d=d, m=e1.noise_dim(nt, d, m), degt=1, degy=degy, params_grad=True)
            if adjoint:
                kw['adjoint_params'] = [sde0.gb]
        try:
            sde, bm, y0, ys = solve(mk, 'stratonovich', 'reversible_heun', nt, {}, d, m, B, ts, dt, degy=degy, adjoint=adjoint,
                                    adjoint_method='adjoint_reversible_heun' if adjoint else None, y0_grad=y0_grad, sde=sde0, **kw)
        except Exception as e:
            return dict(task=task, bad=[(f'crash in the forward pass: {type(e).__name__}: {e}', 'sat', {})], identities=0, solver_s=0.0, queries=0, twin=True)
        if extras_loss:       # the returned extra solver state (f, g, z) is part of what the caller may differentiate
            ys, extras = ys
        validate(ys, mk.env, 1e-8)
        loss = e1.weighted_loss(mk, ys)
        if extras_loss:
            for nm, x in zip(('lf', 'lg', 'lz'), extras):
                loss = loss + e1.weighted_loss(mk, x, prefix=nm)
        params = [sde.gb] if subset else list(sde.parameters())
        # a fixed initial condition (y0 not requiring grad, only the parameters are trained) is a different autograd path
        try:
            if twice:
                # the backward pass must be repeatable: a second loss differentiated through the SAME autograd node
                torch.autograd.grad(loss, ([y0] if y0_grad else []) + params, allow_unused=True, retain_graph=True)
                loss = e1.weighted_loss(mk, ys, prefix='lx')
            g = torch.autograd.grad(loss, ([y0] if y0_grad else []) + params, allow_unused=True)
        except Exception as e:
            if not adjoint:
                raise
            return dict(task=task, bad=[(f'crash in the backward pass: {type(e).__name__}: {e}', 'sat', {})], identities=0, solver_s=0.0, queries=0, twin=True)
        if not y0_grad:
            g = (torch.zeros_like(y0),) + tuple(g)
        for x in g:
            if x is not None:
                validate(x, mk.env, 1e-6)
        grads.append(g)
        fw.append(ys)
    Zc = e1.Z()
    bad = []
    n = 0
    if any(a is not b for a, b in zip(e1.flat_nodes(fw[0]), e1.flat_nodes(fw[1]))):
        bad.append(('forward values differ between sdeint_adjoint and sdeint', 'structure', {}))
    for tname, ga, gb in zip(['y0', 'b'] if subset else ['y0', 'a', 'b'], grads[0], grads[1]):
        if ga is None or gb is None:
            bad.append((tname, 'none-gradient', {})); continue
        for k, (x, y) in enumerate(zip(e1.flat_nodes(ga), e1.flat_nodes(gb))):
            r, model = Zc.equal(x, y)
            n += 1
            if r != 'unsat':
                bad.append((f'{tname}[{k}]', r, model))
    r, _ = Zc.equal(e1.flat_nodes(grads[0][0])[0], e1.flat_nodes(grads[1][0])[0] + dag.ONE)
    return dict(task=task, bad=bad, identities=n, solver_s=Zc.solver_s, queries=Zc.queries, twin=(r == 'sat'))


def tasks_for(tier):
    ts2, ts3 = [0.0, 0.1, 0.2], [0.0, 0.1, 0.2, 0.3]
    T = [(nt, 1, 2, 1, ts2, 0.1, 2) for nt in ('diagonal', 'scalar', 'additive', 'general')]
    T += [('diagonal', 1, 2, 1, ts2, 0.1, 2, False), ('general', 1, 2, 1, ts2, 0.1, 1, False)]
    T += [('diagonal', 1, 2, 1, ts2, 0.1, 1, True, True), ('general', 1, 2, 1, ts2, 0.1, 1, False, True)]      # loss also on the returned extras
    T += [('diagonal', 1, 2, 1, ts2, 0.1, 1, True, False, True), ('additive', 1, 2, 1, ts2, 0.1, 1, True, False, True)]    # adjoint_params = a subset
    T += [('diagonal', 1, 2, 1, ts2, 0.1, 1, True, False, False, True), ('general', 1, 2, 1, ts2, 0.1, 1, True, False, False, True)]    # backward twice
    if tier != 'quick':
        T += [(nt, 2, 2, 2, ts2, 0.1, 1) for nt in ('diagonal', 'scalar', 'additive', 'general')]
        T += [(nt, 1, 2, 1, ts3, 0.1, 1) for nt in ('diagonal', 'general')]
        T += [('scalar', 1, 1, 1, ts3, 0.1, 1), ('additive', 1, 2, 1, ts3, 0.1, 1)]      # 4 steps exceed the polynomial budget (stated bound: 3)
    return T


def run(ctx):
    ctx.fn('sdeint_adjoint', '_SdeintAdjointMethod.forward / backward', 'AdjointReversibleHeun.step', 'AdjointSDE.get_state',
           'ReversibleHeun.step', 'ReverseBrownian.__call__', 'misc.vjp / flatten / flat_to_shape', 'sdeint + torch.autograd.grad (backprop reference)')
    ctx.stubs.append('Brownian motion: deterministic stub keyed by the queried interval (the adjoint pass re-queries it through the real ReverseBrownian)')
    ctx.bounds = {'steps': '2 (quadratic f,g) / 3 (affine f,g, thorough) with output times on the dt grid', 'dims': 'd<=2, m<=2, batch<=2', 'noise types': 'all four',
                  'loss': 'arbitrary linear weights on every output'}
    ctx.assumptions += ['algebraic identity over the reals; accumulated float rounding (the 1e-9 of the statement) is reported by the replay only']
    ctx.outside += ['float rounding magnitude', 'more steps than the bound (polynomial degree doubles per step)']
    tasks = tasks_for(ctx.tier)
    tw = 0
    for t, (st_, res) in zip(tasks, pmap(scenario, tasks)):
        name = f"noise={t[0]} d={t[1]} m={t[2]} B={t[3]} ts={t[4]} deg={t[6]}" + (" y0 without grad" if len(t) > 7 and not t[7] else "") + (" loss on extras" if len(t) > 8 and t[8] else "") + (" adjoint_params=subset" if len(t) > 9 and t[9] else "") + (" second backward pass" if len(t) > 10 and t[10] else "")
        if st_ != 'ok':
            ctx.inconc(name, str(res)[:600]); continue
        ctx.paths += 1; ctx.queries += res['queries']; ctx.solver_s += res['solver_s']; ctx.validated += 2
        tw += bool(res['twin'])
        ctx.sample({'scenario': name, 'gradient_identities': res['identities']})
        if not res['bad']:
            ctx.ok(name, f"{res['identities']} gradient components"); continue
        n, r, mdl = res['bad'][0]
        if r == 'unknown':
            ctx.inconc(name, f'{n}: unknown'); continue
        ctx.violation(f"reversible_heun_adjoint|{t[0]}|{n.split('[')[0]}", f"adjoint gradient {n} differs from backprop ({r})", replay=dict(task=list(t)))
    ctx.twin('twin: adjoint gradient == backprop + 1 must fail', tw == len(tasks))


def replay(data):
    import torchsde
    task = data['replay']['task']
    nt, d, m, B, ts, dt, degy = task[:7]
    y0_grad = task[7] if len(task) > 7 else True
    extras_loss = task[8] if len(task) > 8 else False
    subset = task[9] if len(task) > 9 else False
    twice = task[10] if len(task) > 10 else False
    out = []
    for adjoint in (True, False):
        mk = sdes.Maker(symbolic=False, seed=21)
        kw = {'extra': True} if extras_loss else {}
        sde0 = None
        if subset:
            sde0 = sdes.PolySDE(mk, 'stratonovich', nt, d=d, m=e1.noise_dim(nt, d, m), degt=1, degy=degy, params_grad=True)
            if adjoint:
                kw['adjoint_params'] = [sde0.gb]
        try:
            sde, bm, y0, ys = solve(mk, 'stratonovich', 'reversible_heun', nt, {}, d, m, B, ts, dt, degy=degy, adjoint=adjoint,
                                    adjoint_method='adjoint_reversible_heun' if adjoint else None, y0_grad=y0_grad, sde=sde0, **kw)
        except Exception as e:
            print('replay C10: crash', type(e).__name__, e)
            return True
        extras = ()
        if extras_loss:
            ys, extras = ys
        w = mk('lw', tuple(ys.shape), values=0.5 + 0.1 * np.arange(ys.numel()).reshape(tuple(ys.shape)))
        loss = (ys * w).sum()
        for k, x in enumerate(extras):
            loss = loss + (x * (0.3 + 0.1 * k + 0.05 * torch.arange(x.numel(), dtype=x.dtype).reshape(x.shape))).sum()
        try:
            if twice:
                torch.autograd.grad(loss, ([y0] if y0_grad else []) + ([sde.gb] if subset else list(sde.parameters())), allow_unused=True, retain_graph=True)
                loss = (ys * (0.2 + w * w)).sum()
            g = torch.autograd.grad(loss, ([y0] if y0_grad else []) + ([sde.gb] if subset else list(sde.parameters())), allow_unused=True)
        except Exception as e:
            print('replay C10: crash in backward', type(e).__name__, e)
            return True
        out.append(torch.cat([x.reshape(-1) for x in g]))
    rel = float(((out[0] - out[1]).abs() / out[1].abs().clamp_min(1e-12)).max())
    print('replay C10: max relative difference adjoint vs backprop', rel)
    return rel > 1e-9
