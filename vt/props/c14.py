"""C14 - adaptive stepping: real BaseSDESolver.integrate (adaptive branch) + real update_step_size, concolic schedule.

The error estimate is an arbitrary value e >= 1e-7 per trial (nondeterministic stub of compute_error); x ** a with a
non-integer exponent is an uninterpreted stub constrained by positivity / monotonicity facts, so every schedule the
controller can produce within the trial bound is covered (and some it cannot: over-approximation is sound here).
The real compute_error is checked separately against the error-norm formula (E1).
"""
import time
from fractions import Fraction

import numpy as np
import torch
import z3

from .. import dag, symx, loopmodel, brownian as B
from ..core import pmap, Inconclusive
from ..dag import Node, lift
from ..symtorch import Unsupported, SymT, sym_tensor, validate, env_of
from ..symx import Engine, CR, PathAbort

EPS = Fraction(1, 10 ** 7)
SHRINK = Fraction(9322, 10000)       # 0.9 ** (2/3) = 0.93217...


def harness(max_trials, nout):
    from torchsde._core import adaptive_stepping

    def h(E):
        real_update = adaptive_stepping.update_step_size
        real_err = adaptive_stepping.compute_error
        upd = []
        errs = []

        def compute_error_stub(y11, y12, rtol, atol, eps=1e-7):
            e = E.fresh('err', 2)
            E.assume(e >= EPS)
            errs.append((e, y11, y12))
            return e

        def update_rec(error_estimate, prev_step_size, **kw):
            new, ratio = real_update(error_estimate=error_estimate, prev_step_size=prev_step_size, **kw)
            upd.append((error_estimate, prev_step_size, kw.get('prev_error_ratio'), new, ratio))
            return new, ratio
        adaptive_stepping.compute_error = compute_error_stub
        adaptive_stepping.update_step_size = update_rec
        s = None
        finished = False
        crashed = None
        ts = None
        try:
            ts = [E.input(f'ts{i}', Fraction(i, 1)) for i in range(nout)]
            dt = E.input('dt', Fraction(1, 2)); dtmin = E.input('dtmin', Fraction(1, 8))
            for a, b in zip(ts[:-1], ts[1:]):
                E.assume(a < b)
            E.assume((dtmin > 0) & (dt >= dtmin))
            s = loopmodel.make_stub_solver(dt, True, dtmin)
            orig = s.step

            def counted(*a):
                if len(s.log) >= 3 * max_trials:
                    raise PathAbort('trial bound')
                return orig(*a)
            s.step = counted
            y0 = loopmodel.fresh_state('y0', value=0.3)
            x0 = (loopmodel.fresh_state('x0', value=0.2),)
            try:
                ys, extra = s.integrate(y0, ts, x0)
                finished = True
            except (Inconclusive, Unsupported):
                raise
            except Exception as e:
                import traceback
                crashed = f"{type(e).__name__}: {e} | {traceback.format_exc()[-400:]}"
            if crashed:
                E.fail('crash', 'exception', crashed)
                return
        finally:
            adaptive_stepping.compute_error = real_err
            adaptive_stepping.update_step_size = real_update
            if s is not None and ts is not None:
                try:
                    checks(E, s, ts, dt, dtmin, upd, errs, finished, y0, x0, ys if finished else None, extra if finished else None)
                except (Inconclusive, Unsupported, PathAbort):
                    raise
                except Exception as e:
                    import traceback
                    E.fail('check-crash', 'exception', f"{type(e).__name__}: {e} | {traceback.format_exc()[-400:]}")
    return h


def checks(E, s, ts, dt, dtmin, upd, errs, finished, y0, x0, ys, extra):
    log = s.log
    trials = [log[i:i + 3] for i in range(0, len(log) - len(log) % 3, 3)]
    last = ts[-1]
    cur_t, cur_y, cur_x = ts[0], y0, x0
    for k, (full, h1, h2) in enumerate(trials):
        a, b = full['t0'], full['t1']
        E.prove(f'trial{k}-starts-at-current-time', a == cur_t)
        if full['y0'] is not cur_y or h1['y0'] is not cur_y:
            E.fail(f'trial{k}-state', 'concrete', 'trial does not start from the current accepted state')
        if full['extra0'] is not cur_x or h1['extra0'] is not cur_x:
            E.fail(f'trial{k}-extra', 'concrete', 'trial does not start from the current extra state')
        E.prove(f'trial{k}-inside-horizon', (a >= ts[0]) & (b <= last) & (a < b))
        E.prove(f'trial{k}-not-shorter-than-dt_min-unless-clipped', Node('or', (b - a >= dtmin).n, (b == last).n))
        mid = (a + b) / 2
        E.prove(f'trial{k}-halves', (h1['t0'] == a) & (h1['t1'] == mid) & (h2['t0'] == mid) & (h2['t1'] == b))
        if h2['y0'] is not h1['y1'] or h2['extra0'] is not h1['extra1']:
            E.fail(f'trial{k}-half-chain', 'concrete', 'second half step does not continue the first')
        if k < len(errs):
            e, y11, y12 = errs[k]
            if y11 is not full['y1'] or y12 is not h2['y1']:
                E.fail(f'trial{k}-error-args', 'concrete', 'error estimate not computed from (full step, two half steps)')
        if k < len(upd):
            e, prev, per, new, ratio = upd[k]
            E.prove(f'trial{k}-step-factor-bounds', (new >= prev * Fraction(1, 5)) & (new <= prev * Fraction(7, 5)))
            E.prove(f'trial{k}-reject-shrinks', Node('or', (e <= 1).n, (new < prev).n))
            E.prove(f'trial{k}-accept-does-not-shrink', Node('or', (e > 1).n, (new >= prev).n))
        # what happened next
        nxt = trials[k + 1][0] if k + 1 < len(trials) else None
        if nxt is not None:
            with symx.no_branch():
                accepted = bool(nxt['t0'] == b)
            e = errs[k][0]
            if accepted:
                E.prove(f'trial{k}-accepted-advances-to-next_t', nxt['t0'] == b)
                if nxt['y0'] is not h2['y1']:
                    E.fail(f'trial{k}-accepted-state', 'concrete', 'accepted state is not the two-half-step solution')
                if nxt['extra0'] is not h2['extra1']:
                    E.fail(f'trial{k}-accepted-extra', 'concrete', 'accepted extra state is not that of the two half steps')
                # accepted although e > 1 only when the controller is at dt_min
                ln = nxt['t1'] - nxt['t0']
                E.prove(f'trial{k}-accept-rule', Node('or', (e <= 1).n, (ln <= dtmin).n))
                cur_t, cur_y, cur_x = b, h2['y1'], h2['extra1']
            else:
                E.prove(f'trial{k}-rejected-keeps-time', nxt['t0'] == a)
                if nxt['y0'] is not cur_y or nxt['extra0'] is not cur_x:
                    E.fail(f'trial{k}-rejected-state', 'concrete', 'state changed by a rejected step')
                E.prove(f'trial{k}-rejected-only-if-error>1', e > 1)
                ln = nxt['t1'] - nxt['t0']
                E.prove(f'trial{k}-retry-not-longer', ln <= b - a)
                E.prove(f'trial{k}-retry-smaller-unless-clipped', Node('or', (ln < b - a).n, (nxt['t1'] == last).n))
                E.prove(f'trial{k}-retry-not-below-dt_min', Node('or', (ln >= dtmin).n, (nxt['t1'] == last).n))
        elif finished:
            e = errs[k][0]
            E.prove('final-trial-ends-at-ts[-1]', b == last)
            got = ys[len(ts) - 1].sym.reshape(-1)[0]
            B.prove_eq(E, 'final-output-is-two-half-step-state', got, h2['y1'].sym.reshape(-1)[0])
            if extra is not h2['extra1']:
                E.fail('final-extra', 'concrete', 'returned extra state is not that of the last accepted half step')
    if finished and len(ts) > 2:
        pass


def run_one(task):
    max_trials, nout, max_paths = task
    E = Engine(max_paths=max_paths, timeout_ms=60000, max_branches=400)
    t = time.time()
    fails = E.explore(harness(max_trials, nout))
    return dict(task=task, stats=E.stats, wall=time.time() - t, samples=E.path_log[:2],
                failures=[dict(what=f.what, kind=f.kind, inputs={k: str(v) for k, v in f.inputs.items()}, detail=f.detail[:500])
                          for f in fails[:30]], nfail=len(fails))


def tasks_for(tier):
    if tier == 'quick':
        return [(2, 2, 20000), (2, 3, 20000)]
    return [(2, 2, 20000), (3, 2, 200000), (2, 3, 100000)]


def error_norm(ctx):
    """the real compute_error on symbolic tensors equals max(sqrt(mean(((y1-y2)/max(atol + rtol*max(|y1|,|y2|), eps))^2)), eps)"""
    from torchsde._core import adaptive_stepping
    from .. import symtorch
    n_ok = 0
    for (rtol, atol, vals1, vals2) in [(0.1, 0.01, [[0.5, -0.2]], [[0.45, -0.25]]), (0.0, 0.001, [[0.5], [0.1]], [[0.4], [0.3]]),
                                       (0.5, 0.0, [[1e-9, 2.0]], [[2e-9, -1.0]])]:
        y1 = sym_tensor(vals1, 'p'); y2 = sym_tensor(vals2, 'q')
        val = adaptive_stepping.compute_error(y1, y2, rtol, atol)
        node = symtorch.CONCRETIZED[-1]
        env = env_of(y1, y2)
        if abs(dag.to_float(node, env) - val) > 1e-9 * max(1, abs(val)):
            raise Inconclusive('compute_error symbolic value does not match kernel value')
        eps = lift(1e-7)
        tot = None
        for a, b in zip(y1.sym.reshape(-1), y2.sym.reshape(-1)):
            tol = Node('max', lift(rtol) * Node('max', Node('abs', a), Node('abs', b)) + lift(atol), eps)
            r = (a - b) / tol
            tot = r * r if tot is None else tot + r * r
        want = Node('max', Node('sqrt', tot / lift(y1.sym.size)), eps)
        zv = {}
        zenv = lambda v: zv.setdefault(v, z3.Real(v))
        memo = {}; side = []
        za = dag.to_z3(node, zenv, memo, side); zb = dag.to_z3(want, zenv, memo, side)
        s = z3.Solver(); s.set('timeout', 60000)
        # two square roots of the same radicand: both >= 0 and squares equal => equal; give z3 that as the sqrt definitions
        s.add(*[c for _, c in side]); s.add(za != zb)
        r = ctx.check_sat(s)
        if r == 'unsat':
            n_ok += 1
        elif r == 'sat':
            m = s.model()
            ctx.violation(f'compute_error|rtol={rtol},atol={atol}', 'error norm differs from the mixed rtol/atol RMS formula',
                          replay=dict(norm=True, rtol=rtol, atol=atol, y1=vals1, y2=vals2,
                                      model={d.name(): str(m[d]) for d in m.decls() if not d.name().startswith('sqrt')}))
        else:
            ctx.inconc('compute_error formula', r)
    if n_ok == 3:
        ctx.ok('compute_error == mixed rtol/atol RMS norm (3 tolerance regimes, symbolic y1,y2)')


def check_schedules(ctx, prefix='', sig_prefix='', extra=None, tier=None):
    """the adaptive-loop obligations; also discharged by C01 (accepted steps tile the horizon and consume exactly their own
    Brownian increments: a rejected trial must leave time and state untouched)"""
    tasks = tasks_for(tier or ctx.tier)
    for t, (st, res) in zip(tasks, pmap(run_one, tasks)):
        name = f"{prefix}adaptive trials<={t[0]} nout={t[1]}"
        if st != 'ok':
            ctx.inconc(name, str(res)[:500]); continue
        ctx.paths += res['stats']['paths']; ctx.queries += res['stats']['queries']; ctx.solver_s += res['stats']['solver_s']
        ctx.sample({'scenario': name, 'paths': res['stats']['paths'], 'bound_hits': res['stats']['bound_hits'], 'example': res['samples'][:1]})
        if not res['nfail']:
            ctx.ok(name, f"{res['stats']['paths']} paths ({res['stats']['bound_hits']} cut at the trial bound), {res['stats']['queries']} queries, {res['wall']:.1f}s")
            continue
        seen = set()
        for f in res['failures']:
            what = ''.join(c for c in f['what'] if not c.isdigit())
            if what in seen:
                continue
            seen.add(what)
            if f['kind'] == 'unknown':
                ctx.inconc(f"{name}|{what}", f['detail'][:200]); continue
            ctx.violation(f"{sig_prefix}adaptive|{what}", f"{f['what']}: {f['detail'][:200]}", replay=dict(inputs=f['inputs'], what=what, nout=t[1], **(extra or {})))


def run(ctx):
    ctx.fn('BaseSDESolver.integrate (adaptive branch)', 'adaptive_stepping.update_step_size', 'adaptive_stepping.compute_error',
           'adaptive_stepping._rms', 'interp.linear_interp')
    ctx.stubs += ['solver.step -> fresh symbolic state per call', 'compute_error -> arbitrary e >= 1e-7 per trial (schedule exploration)',
                  'x ** a (a non-integer) -> fresh positive value with (x>1 <=> result>1), (x==1 <=> result==1)']
    ctx.bounds = {'trials from ts[0]': '<=2 (quick) / <=3', 'output times': '2 and 3 (quick) / <=3', 'dt, dt_min, ts': 'arbitrary reals, dt >= dt_min > 0'}
    ctx.assumptions += ['precondition dt >= dt_min > 0 (a first trial shorter than dt_min when the caller passes dt < dt_min is outside the claim)',
                        'termination: per-trial facts proved here (a rejection shrinks the controller step, never below dt_min; '
                        'an accepted step advances time by >= min(dt_min, remaining)) + the standard ranking argument (stated, not solved)']
    ctx.outside += ['"tightening the tolerances reduces the true error" (a monotone limit statement)', 'schedules longer than the trial bound (loop body is uniform)']
    check_schedules(ctx)
    error_norm(ctx)
    # twin
    E = Engine(max_paths=400)

    def tw(E):
        harness(1, 2)(E)
    fails = []
    from torchsde._core import adaptive_stepping

    def twh(E):
        ts = [E.input('ts0', 0), E.input('ts1', 1)]
        dt = E.input('dt', Fraction(1, 2)); dtmin = E.input('dtmin', Fraction(1, 8))
        E.assume((ts[0] < ts[1]) & (dtmin > 0) & (dt >= dtmin))
        e = E.fresh('err', 2); E.assume(e >= EPS)
        new, _ = adaptive_stepping.update_step_size(e, dt)
        E.prove('twin', new >= dt)
    ctx.twin('twin: "the controller never shrinks the step" must fail', any(f.kind in ('sat', 'concrete') for f in E.explore(twh)))
    ctx.paths += E.stats['paths']; ctx.queries += E.stats['queries']


# ---------------------------------------------------------------- replay
def replay(data):
    """drive the real integrate loop on floats with a scripted error sequence (the counterexample's), recording trials"""
    from torchsde._core import adaptive_stepping, base_solver
    r = data['replay']
    if r.get('norm'):
        y1 = torch.tensor(r['y1'], dtype=torch.float64); y2 = torch.tensor(r['y2'], dtype=torch.float64)
        rtol, atol = r['rtol'], r['atol']
        got = adaptive_stepping.compute_error(y1, y2, rtol, atol)
        tol = torch.clamp(rtol * torch.max(y1.abs(), y2.abs()) + atol, min=1e-7)
        want = max(float((((y1 - y2) / tol) ** 2).mean().sqrt()), 1e-7)
        print('replay C14 norm:', got, want)
        return abs(got - want) > 1e-9 * max(1, want)
    inp = {k: float(Fraction(v)) for k, v in r['inputs'].items()}
    nout = r.get('nout', 2)
    ts = [inp[f'ts{i}'] for i in range(nout)]
    dt, dtmin = inp['dt'], inp['dtmin']
    if not (dtmin > 0 and dt >= dtmin and all(a < b for a, b in zip(ts[:-1], ts[1:]))):
        print('replay C14: counterexample violates the preconditions (not a reproduction)')
        return False
    errs0 = [inp[k] for k in sorted((k for k in inp if k.startswith('err!')), key=lambda s: int(s.split('!')[1]))]

    def drive(ts, dt, dtmin, errs):
        it = iter(errs + [0.5] * 10000)
        real_err = adaptive_stepping.compute_error
        adaptive_stepping.compute_error = lambda *a, **k: next(it)
        log = []

        class S(base_solver.BaseSDESolver):
            strong_order = 1.0; weak_order = 1.0; sde_type = 'ito'; noise_types = ('diagonal',); levy_area_approximations = ('none',)
            def __init__(self):
                self.dt = dt; self.adaptive = True; self.dt_min = dtmin; self.rtol = 0; self.atol = 0
            def step(self, t0, t1, y0, extra0):
                log.append((float(t0), float(t1), float(y0), extra0))
                return torch.tensor([[float(len(log))]], dtype=torch.float64), (len(log),)
        bad = []
        try:
            ys, extra = S().integrate(torch.tensor([[0.0]], dtype=torch.float64), ts, (0,))
            trials = [log[i:i + 3] for i in range(0, len(log), 3)]
            cur_t, cur_y, cur_x = ts[0], 0.0, (0,)
            for k, (full, h1, h2) in enumerate(trials):
                a, b = full[0], full[1]
                if full[3] != cur_x or h1[3] != cur_x: bad.append(f'trial {k} does not start from the current extra solver state: {full[3]} / {h1[3]} vs {cur_x}')
                if full[2] != cur_y or h1[2] != cur_y: bad.append(f'trial {k} does not start from the current accepted state')
                if h2[3] != (3 * k + 2,): bad.append(f'trial {k}: second half step does not continue the first')
                if abs(a - cur_t) > 1e-12: bad.append(f'trial {k} starts at {a}, current time {cur_t}')
                if not (ts[0] - 1e-12 <= a < b <= ts[-1] + 1e-12): bad.append(f'trial {k} [{a},{b}] outside horizon')
                if b - a < dtmin - 1e-12 and abs(b - ts[-1]) > 1e-12: bad.append(f'trial {k} shorter than dt_min')
                if abs(h1[1] - (a + b) / 2) > 1e-12 or abs(h2[0] - (a + b) / 2) > 1e-12: bad.append(f'trial {k} halves wrong')
                e = (errs + [0.5] * 10000)[k]
                if k + 1 < len(trials):
                    na, nb = trials[k + 1][0][0], trials[k + 1][0][1]
                    accepted = abs(na - b) < 1e-12
                    if accepted:
                        if e > 1 and (nb - na) > dtmin + 1e-12: bad.append(f'trial {k} accepted with error {e} > 1 above dt_min')
                        if trials[k + 1][0][2] != 3 * k + 3: bad.append(f'trial {k} accepted state is not the two-half-step one')
                        cur_t, cur_y, cur_x = b, 3 * k + 3, (3 * k + 3,)
                    else:
                        if e <= 1: bad.append(f'trial {k} rejected with error {e} <= 1')
                        if abs(na - a) > 1e-12: bad.append(f'trial {k} rejected but time moved')
                        if (nb - na) > (b - a) + 1e-15: bad.append(f'trial {k} retried longer')
                else:
                    if abs(b - ts[-1]) > 1e-12: bad.append('did not end at ts[-1]')
                    if float(ys[-1]) != float(3 * k + 3): bad.append('final output is not the two-half-step state')
        except Exception as e:
            bad.append(f'crash {type(e).__name__}: {e}')
        finally:
            adaptive_stepping.compute_error = real_err
        return bad

    bad = drive(ts, dt, dtmin, errs0)
    if not bad and nout >= 3:
        # the symbolic counterexample fixes values of the uninterpreted power x**a that the real pow need not take: also drive a
        # small family of schedules around it (every one of them satisfies the invariants on a correct loop)
        import itertools
        for x, dt_, dm_, es in itertools.product((0.52, 0.3, 0.77), (0.3, 0.45), (0.09, 0.2), ([0.5] * 6, [2.0, 0.5, 0.5, 2.0, 0.5, 0.5], [0.5, 3.0, 0.5, 0.5, 0.5, 0.5])):
            tsx = [0.0, x, 1.0] + [1.0 + 0.5 * (k + 1) for k in range(nout - 3)]
            bad = drive(tsx, dt_, dm_, list(es))
            if bad:
                bad = [f'schedule ts={tsx} dt={dt_} dt_min={dm_} errs={es}: ' + b for b in bad[:2]]
                break

    print('replay C14:', bad or 'adaptive invariants hold on this schedule')
    return bool(bad)
