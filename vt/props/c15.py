"""C15 - reversible Heun is algebraically reversible: real ReversibleHeun.step with UNINTERPRETED drift/diffusion (E1 + UF
nodes), real ForwardSDE.prod (incl. bmm for non-diagonal noise), real ReverseBrownian; z3 decides the identities."""
import time

import numpy as np
import torch
import z3

from .. import dag, sdes
from ..core import pmap, Inconclusive
from ..symtorch import SymT, validate
from ..dag import var


def scenario(task):
    nt, d, m, nsteps, B = task[:5]
    levy = task[5] if len(task) > 5 else 'none'
    import torchsde
    from torchsde._core import methods, base_sde
    mk = sdes.Maker(symbolic=True, seed=4)
    sde = sdes.UFSDE('stratonovich', nt, d, m)
    mm = d if nt == 'diagonal' else (1 if nt == 'scalar' else m)
    bm = sdes.KeyedBM(mk, B, mm, levy=levy)
    fwd = methods.select('reversible_heun', 'stratonovich')(sde=base_sde.ForwardSDE(sde), bm=bm, dt=0.1, adaptive=False, rtol=0, atol=0,
                                                          dt_min=0, options={})
    rev = methods.select('reversible_heun', 'stratonovich')(sde=base_sde.ForwardSDE(sdes.MinusSDE(sde)), bm=torchsde.ReverseBrownian(bm),
                                                          dt=0.1, adaptive=False, rtol=0, atol=0, dt_min=0, options={})
    t = [mk('t0', (), values=0.2)]
    for k in range(nsteps):
        t.append(t[-1] + mk(f'h{k}', (), values=0.1 + 0.03 * k))
    y0 = mk('y0', (B, d), values=0.3 + 0.1 * np.arange(B * d).reshape(B, d))
    extra = fwd.init_extra_solver_state(t[0], y0)
    states = [(y0, extra)]
    for k in range(nsteps):
        y, extra = fwd.step(t[k], t[k + 1], states[-1][0], states[-1][1])
        states.append((y, extra))
    # reverse
    y, (f, g, z) = states[-1]
    cur = (y, (-f, -g, z))
    obligations = []
    env = dict(mk.env)
    for k in range(nsteps, 0, -1):
        yb, (fb, gb, zb) = rev.step(-t[k], -t[k - 1], cur[0], cur[1])
        validate(yb, env, 1e-7)
        yw, (fw, gw, zw) = states[k - 1]
        for nm, got, want, sgn in (('y', yb, yw, 1), ('z', zb, zw, 1), ('f', fb, fw, -1), ('g', gb, gw, -1)):
            for idx, (a, b) in enumerate(zip(got.sym.reshape(-1), want.sym.reshape(-1))):
                obligations.append((f'step{k}->{k - 1}:{nm}[{idx}]', a, b if sgn == 1 else -b))
        cur = (yb, (fb, gb, zb))
    zv = {}
    zenv = lambda v: zv.setdefault(v, z3.Real(v))
    memo = {}
    res = []
    solver_s = 0.0
    for name, a, b in obligations:
        side = []
        za = dag.to_z3(a, zenv, memo, side); zb_ = dag.to_z3(b, zenv, memo, side)
        s = z3.Solver(); s.set('timeout', 60000)
        s.add(*[c for _, c in side]); s.add(za != zb_)
        t0_ = time.time(); r = str(s.check()); solver_s += time.time() - t0_
        model = {}
        if r == 'sat':
            m_ = s.model()
            model = {d_.name(): str(m_[d_]) for d_ in m_.decls() if d_.arity() == 0}
        res.append((name, r, model))
    # twin: reverse step claimed to return y0 + 1
    side = []
    a = dag.to_z3(cur[0].sym.reshape(-1)[0], zenv, memo, side); b = dag.to_z3(states[0][0].sym.reshape(-1)[0] + dag.ONE, zenv, memo, side)
    s = z3.Solver(); s.add(*[c for _, c in side]); s.add(a != b)
    twin = str(s.check()) == 'sat'
    return dict(task=task, results=res, solver_s=solver_s, twin=twin, queries=len(res) + 1)


def tasks_for(tier):
    if tier == 'quick':
        return [('diagonal', 2, 2, 1, 1), ('scalar', 2, 1, 1, 1), ('additive', 2, 2, 1, 1), ('general', 2, 2, 1, 1), ('diagonal', 1, 1, 2, 2)] + \
               [(nt, 2, 2, 1, 1, levy) for nt in ('diagonal', 'scalar', 'additive', 'general') for levy in ('space-time', 'davie')]
    return [(nt, 2, 2, k, 2, levy) for nt in ('diagonal', 'scalar', 'additive', 'general') for k in (1, 2, 3) for levy in ('none', 'space-time', 'foster')]


def run(ctx):
    ctx.fn('ReversibleHeun.step', 'ReversibleHeun.init_extra_solver_state', 'ForwardSDE.f_and_g', 'ForwardSDE.prod_diagonal / prod_default (bmm)',
           'ReverseBrownian.__call__', 'methods.select')
    ctx.stubs += ['drift / diffusion: uninterpreted function symbols F_i(t, y), G_ij(t, y) (concrete sin-based implementation for validation)',
                  'Brownian motion: deterministic stub keyed by the queried interval, wrapped in the REAL ReverseBrownian for the reverse solve']
    ctx.bounds = {'steps': '1-2 (quick) / 1-3', 'dims': 'd<=2, m<=2, batch<=2', 'step sizes': 'symbolic, different per step', 'noise types': 'all four', 'Levy area advertised by the Brownian motion': 'none, space-time, davie (quick); none, space-time, foster (thorough)'}
    ctx.assumptions += ['real arithmetic (numerical stability of the reverse recursion is outside the claim)']
    ctx.outside += ['rounding error growth of the reverse recursion']
    tasks = tasks_for(ctx.tier)
    twins = 0
    for t, (st, res) in zip(tasks, pmap(scenario, tasks)):
        levy = t[5] if len(t) > 5 else 'none'
        name = f"noise={t[0]} d={t[1]} m={t[2]} steps={t[3]} batch={t[4]} bm-levy={levy}"
        if st != 'ok':
            ctx.inconc(name, str(res)[:500]); continue
        ctx.paths += 1; ctx.queries += res['queries']; ctx.solver_s += res['solver_s']; ctx.validated += 1
        twins += bool(res['twin'])
        bad = [(n, r, m) for n, r, m in res['results'] if r != 'unsat']
        ctx.sample({'scenario': name, 'identities': len(res['results'])})
        if not bad:
            ctx.ok(name, f"{len(res['results'])} identities"); continue
        n, r, m = bad[0]
        if r != 'sat':
            ctx.inconc(name, f"{n}: {r}"); continue
        ctx.violation(f"reversible_heun|{t[0]}|{n.split(':')[1].split('[')[0]}" + ('' if levy == 'none' else f'|bm-levy={levy}'), f"reverse step does not reconstruct {n}",
                      replay=dict(task=list(t)))
    ctx.twin('twin: reverse step returns y0 + 1 must fail', twins == len(tasks))
    # the forward recursion that is being inverted must be the advertised one for EVERY user SDE, including those that hand
    # back live tensors (stored coefficients, the state itself), with and without gradients enabled: step() must not write
    # into tensors it did not create (seeded change C15d: in-place accumulation into the old extra state under no_grad)
    from . import c02
    c02.aliasing_obligations(ctx, only=('reversible_heun',))


def replay(data):
    """numeric forward/reverse round trip with the real sdeint on a smooth time-dependent SDE of the same noise type"""
    import torchsde
    if data['replay'].get('kind') == 'aliasing':
        from . import c02
        return c02.replay(data)
    task = data['replay']['task']
    nt, d, m, nsteps, B = task[:5]
    levy = task[5] if len(task) > 5 else 'none'
    torch.manual_seed(0)
    mm = d if nt == 'diagonal' else (1 if nt == 'scalar' else m)

    class SDE(torch.nn.Module):
        sde_type = 'stratonovich'; noise_type = nt
        def f(self, t, y): return torch.sin(y + t) - 0.3 * y * (1 + t)
        def g(self, t, y):
            if nt == 'diagonal': return 0.4 * torch.cos(y * (1 + t)) + 0.2
            if nt == 'additive': return (0.3 + 0.2 * t) * torch.ones(y.shape[0], d, mm, dtype=y.dtype)
            base = 0.3 * torch.cos(y + 2 * t).unsqueeze(-1)
            return base * torch.linspace(0.5, 1.0, mm, dtype=y.dtype) + 0.1

    class Minus(torch.nn.Module):
        sde_type = 'stratonovich'; noise_type = nt
        def __init__(s, b): super().__init__(); s.b = b
        def f_and_g(s, t, y): return -s.b.f(-t, y), -s.b.g(-t, y)
    sde = SDE()
    y0 = torch.randn(3, d, dtype=torch.float64)
    ts = torch.tensor([0.0, 0.17, 0.3, 0.55], dtype=torch.float64)
    bm = torchsde.BrownianInterval(0.0, 0.55, size=(3, mm), dtype=torch.float64, entropy=3, levy_area_approximation=levy)
    ys, (f, g, z) = torchsde.sdeint(sde, y0, ts, bm=bm, method='reversible_heun', dt=0.05, extra=True)
    rys = torchsde.sdeint(Minus(sde), ys[-1], -ts.flip(0), bm=torchsde.ReverseBrownian(bm), method='reversible_heun', dt=0.05,
                          extra_solver_state=(-f, -g, z))
    err = float((rys.flip(0) - ys).abs().max())
    print('replay C15: max reconstruction error', err)
    return err > 1e-9
