"""C06 - seeded reproducibility; query-order independence in dyadic-tree mode (structural identity of value DAGs +
bit-equality of the concrete kernels' outputs on every explored path)."""
import time
from fractions import Fraction

import torch

from .. import dag, symx, brownian as B, bshim
from ..core import pmap, Inconclusive
from ..symtorch import Unsupported, SymT
from ..symx import Engine
from .c03 import HAVE_H, HAVE_A, _ndigits, _jsonable


def same(E, what, r1, r2):
    r1 = r1 if isinstance(r1, tuple) else (r1,)
    r2 = r2 if isinstance(r2, tuple) else (r2,)
    for nm, a, b in zip('WUA', r1, r2):
        if a is None and b is None:
            continue
        ea = a.elem if isinstance(a, SymT) else a
        eb = b.elem if isinstance(b, SymT) else b
        if not torch.equal(ea, eb):
            E.fail(f'{what}-{nm}', 'concrete', f'bits differ in the concrete run ({ea.reshape(-1)[:2].tolist()} vs {eb.reshape(-1)[:2].tolist()})')
        if isinstance(a, SymT) and isinstance(b, SymT):
            for x, y in zip(B.flat(a), B.flat(b)):
                if x is not y:
                    if B.prove_eq(E, f'{what}-{nm}', x, y):
                        E.fail(f'{what}-{nm}-structure', 'structure', 'equal as reals but computed by different float operations')
                    break


def harness(cfg, mode, nq):
    c = dict(B.DEFAULT); c.update(cfg)
    levy = c['levy']
    grid = _ndigits(c['tol'])
    kw = {}
    if levy in HAVE_H: kw['return_U'] = True
    if levy in HAVE_A: kw['return_A'] = True

    def h(E):
        try:
            if mode == 'twin-objects':
                bm1, top1, lo, hi = B.make(E, cfg)
                bm2, top2, _, _ = B.make(E, cfg)
                for k in range(nq):
                    a, b = B.sym_query(E, f'p{k}', lo, hi, Fraction(1 + k, 8) + lo.v, Fraction(5 + k, 8) + lo.v, grid)
                    same(E, f'same-seed-same-queries[{k}]', bm1(a, b, **kw), bm2(a, b, **kw))
            elif mode == 'dyadic-point':   # history of single-argument point queries W(t) (BrownianTree / BrownianPath API)
                fresh, _, lo, hi = B.make(E, cfg)
                used, _, _, _ = B.make(E, cfg)
                for k in range(nq):
                    a, b = B.sym_query(E, f'p{k}', lo, hi, Fraction(1 + k, 8) + lo.v, hi.v, grid)
                    used(b)
                s, t = B.sym_query(E, 'q', lo, hi, lo.v + Fraction(1, 5), lo.v + Fraction(2, 5), grid)
                same(E, 'history-independent', fresh(s, t, **kw), used(s, t, **kw))
                same(E, 'history-independent-point', fresh(t), used(t))
            else:   # dyadic: value of a query independent of the history
                fresh, _, lo, hi = B.make(E, cfg)
                used, _, _, _ = B.make(E, cfg)
                for k in range(nq):
                    a, b = B.sym_query(E, f'p{k}', lo, hi, Fraction(1 + k, 8) + lo.v, Fraction(5 + k, 8) + lo.v, grid)
                    used(a, b, **kw)
                s, t = B.sym_query(E, 'q', lo, hi, lo.v + Fraction(1, 5), lo.v + Fraction(7, 10), grid)
                same(E, 'history-independent', fresh(s, t, **kw), used(s, t, **kw))
        except (Inconclusive, Unsupported):
            raise
        except Exception as e:
            import traceback
            E.fail('crash', 'exception', f"{type(e).__name__}: {e} | {traceback.format_exc()[-500:]}")
    return h


def run_one(task):
    cfg, mode, nq, max_paths, timeout_ms = task
    B.setup()
    E = Engine(max_paths=max_paths, timeout_ms=timeout_ms)
    t = time.time()
    fails = E.explore(harness(cfg, mode, nq))
    return dict(stats=E.stats, wall=time.time() - t, samples=E.path_log[:2],
                failures=[dict(what=f.what, kind=f.kind, inputs={k: str(v) for k, v in f.inputs.items()}, detail=f.detail[:500])
                          for f in fails[:20]], nfail=len(fails))


def tasks_for(tier):
    q = tier == 'quick'
    mp, to = (6000, 60000) if q else (100000, 300000)
    T = [
        (dict(levy='space-time', size=(2,), cache_size=1, entropy=77), 'twin-objects', 2, mp, to),
        (dict(levy='davie', size=(1, 2), cache_size=45, entropy=5), 'twin-objects', 1, mp, to),
        (dict(levy='none', size=(), cache_size=0, entropy=123456789), 'twin-objects', 2, mp, to),
        (dict(levy='space-time', size=(1,), entropy=0), 'twin-objects', 1, mp, to),          # boundary value of the seed
        (dict(wrapper='tree', levy='none', size=(1,), tol=0.1, t1=Fraction(1, 2), entropy=0), 'twin-objects', 1, mp, to),
        (dict(levy='none', size=(), tol=0.1, halfway=True, t1=Fraction(1, 2)), 'dyadic', 1, mp, to),
        (dict(levy='davie', size=(1, 2), tol=0.1, halfway=True, t1=Fraction(1, 2)), 'dyadic', 1, mp, to),
        (dict(wrapper='tree', levy='none', size=(1,), tol=0.1, t1=Fraction(1, 2)), 'dyadic', 1, mp, to),
        (dict(levy='space-time', size=(2,), tol=0.1, halfway=True, cache_size=1, t1=Fraction(1, 2)), 'dyadic', 1, mp, to),
        (dict(wrapper='tree', levy='none', size=(1,), tol=0.1, t1=Fraction(1, 2), w0=1.5), 'dyadic-point', 1, mp, to),
        # a tolerance above 1 that is not a power of ten: the rounding grid (1) is finer than the tolerance (seeded change C06d)
        (dict(levy='none', size=(), tol=2.5, halfway=True, t1=8), 'dyadic', 1, mp, to),
    ]
    if not q:
        T += [
            (dict(levy='foster', size=(1, 2), tol=0.1, halfway=True, t1=Fraction(1, 2)), 'dyadic', 2, mp, to),
            (dict(levy='space-time', size=(1,), tol=0.1, halfway=True, cache_size=0, t1=Fraction(1, 2)), 'dyadic', 2, mp, to),
            (dict(levy='foster', size=(2, 2), cache_size=2, entropy=9), 'twin-objects', 2, mp, to),
            (dict(levy='none', size=(1,), tol=0.01, halfway=True, t1=Fraction(3, 25)), 'dyadic', 1, mp, to),
            (dict(wrapper='tree', levy='none', size=(2,), tol=0.1, t1=Fraction(1, 2), w0=-0.75), 'dyadic-point', 2, mp, to),
        ]
    return T


def run(ctx):
    ctx.fn('BrownianInterval.__init__', 'BrownianInterval.__call__', '_Interval._split', '_Interval._split_exact',
           '_Interval._set_spawn_key_and_depth', '_Interval._increment_and_space_time_levy_area', '_Interval._randn',
           '_Interval._randn_levy', '_Interval._a_seed', '_davie_foster_approximation', 'BrownianTree.__init__ / __call__')
    ctx.stubs += bshim.STUBS
    ctx.bounds = {'query sequence': '<=2 symbolic queries (twin objects)', 'dyadic mode': 'fresh object vs object with <=1 (quick) / <=2 arbitrary prior queries; tol=0.1 on [0,1] (depth <= 4), grid times',
                  'shapes': '(), (1,), (2,), (1,2), (2,2)', 'entropies': 'a few concrete values including 0'}
    ctx.assumptions += ['IEEE determinism of identical operation sequences', 'numpy SeedSequence is a function of (entropy, spawn_key, pool_size) (real object used)']
    ctx.outside += ['"different entropies give different paths" (avalanche property of a hash; not decidable symbolically)',
                    'entropy as a symbolic quantity (concrete entropies are used; SeedSequence is C code)']
    tasks = tasks_for(ctx.tier)
    for t, (st, res) in zip(tasks, pmap(run_one, tasks)):
        name = f"{t[1]}|{B.cfg_name(t[0])}|n={t[2]}"
        if st != 'ok':
            ctx.inconc(name, str(res)[:500]); continue
        ctx.paths += res['stats']['paths']; ctx.queries += res['stats']['queries']; ctx.solver_s += res['stats']['solver_s']
        ctx.validated += res['stats']['paths']
        ctx.sample({'scenario': name, 'paths': res['stats']['paths'], 'example': res['samples'][:1]})
        if not res['nfail']:
            ctx.ok(name, f"{res['stats']['paths']} paths, {res['stats']['queries']} queries, {res['wall']:.1f}s"); continue
        seen = set()
        for f in res['failures']:
            w = f['what'].split('[')[0]
            if w in seen:
                continue
            seen.add(w)
            if f['kind'] == 'unknown':
                ctx.inconc(f"{name}|{w}", f['detail'][:200]); continue
            ctx.violation(f"{t[1]}|{B.cfg_name(t[0])}|{w}", f"{f['what']}: {f['detail'][:200]}",
                          replay=dict(cfg=_jsonable(t[0]), mode=t[1], nq=t[2], inputs=f['inputs'], what=w))
    # twin: different entropies claimed identical must be refuted
    B.setup()
    E = Engine(max_paths=10)

    def tw(E):
        b1, _, lo, hi = B.make(E, dict(levy='none', size=(1,), entropy=1))
        b2, _, _, _ = B.make(E, dict(levy='none', size=(1,), entropy=2))
        s, t = B.sym_query(E, 'q', lo, hi, Fraction(1, 4), Fraction(3, 4))
        same(E, 'twin', b1(s, t), b2(s, t))
    ctx.twin('twin: objects with different entropies claimed identical must fail', bool(E.explore(tw)))


def replay(data):
    import torchsde
    r = data['replay']
    cfg = dict(B.DEFAULT); cfg.update(r['cfg'])
    inp = {k: float(Fraction(v)) for k, v in r['inputs'].items()}
    size = tuple(cfg['size'])
    levy = cfg['levy']
    kw = {}
    if levy in HAVE_H: kw['return_U'] = True
    if levy in HAVE_A: kw['return_A'] = True
    grid = _ndigits(cfg['tol'] if cfg['wrapper'] != 'tree' else (cfg['tol'] or 0.1))

    def q(name):
        if grid is None:
            return inp[name + 'a'], inp[name + 'b']
        return inp[name + 'ka'] / 10 ** grid, inp[name + 'kb'] / 10 ** grid

    def mk():
        t0, t1 = float(Fraction(cfg['t0'])), float(Fraction(cfg['t1']))
        if cfg['wrapper'] == 'tree':
            return torchsde.BrownianTree(t0=t0, w0=torch.full(size, float(cfg.get('w0', 0)), dtype=torch.float64), t1=t1, entropy=cfg['entropy'], tol=cfg['tol'] or 0.1)
        return torchsde.BrownianInterval(t0=t0, t1=t1, size=size, dtype=torch.float64, entropy=cfg['entropy'],
                                         levy_area_approximation=levy, cache_size=cfg['cache_size'], dt=cfg['dt'], tol=cfg['tol'],
                                         halfway_tree=cfg['halfway'])

    def eq(a, b):
        a = a if isinstance(a, tuple) else (a,); b = b if isinstance(b, tuple) else (b,)
        return all((x is None and y is None) or torch.equal(x, y) for x, y in zip(a, b))
    bad = []
    try:
        if r['mode'] == 'twin-objects':
            b1, b2 = mk(), mk()
            for k in range(r['nq']):
                if not eq(b1(*q(f'p{k}'), **kw), b2(*q(f'p{k}'), **kw)):
                    bad.append(f'query {k} differs between two objects with the same entropy')
        elif r['mode'] == 'dyadic-point':
            fresh, used = mk(), mk()
            for k in range(r['nq']):
                used(q(f'p{k}')[1])
            if not eq(fresh(*q('q'), **kw), used(*q('q'), **kw)):
                bad.append('interval value depends on the history of point queries')
            if not eq(fresh(q('q')[1]), used(q('q')[1])):
                bad.append('point value W(t) depends on the history of point queries')
        else:
            fresh, used = mk(), mk()
            for k in range(r['nq']):
                used(*q(f'p{k}'), **kw)
            if not eq(fresh(*q('q'), **kw), used(*q('q'), **kw)):
                bad.append('value depends on the query history in dyadic mode')
    except Exception as e:
        bad.append(f'crash {type(e).__name__}: {e}')
    print('replay C06:', bad or 'bit-identical')
    return bool(bad)
