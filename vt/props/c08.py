"""C08 - backprop through sdeint equals the derivative of the numerical solution (E1): the real sdeint is traced on symbolic
y0 / parameters / Brownian increments, torch.autograd.grad of a symbolically weighted loss is traced too (PyTorch's own
backward formulas), and z3 proves it equal to the symbolic derivative (dag.diff) of the forward output DAG."""
import time

import numpy as np
import torch

from .. import dag, sdes, e1
from ..core import pmap, Inconclusive
from ..symtorch import SymT, validate


def solve(mk, st, method, nt, opts, d, m, B, ts, dt, degy=2, adjoint=False, adjoint_method=None, sde=None, bm=None, **kw):
    import torchsde
    mm = e1.noise_dim(nt, d, m)
    if sde is None:
        sde = sdes.PolySDE(mk, st, nt, d=d, m=mm, degt=1, degy=degy, params_grad=True)
    if bm is None:
        bm = sdes.KeyedBM(mk, B, mm, levy=sdes.levy_for(method))
    y0 = mk('y0', (B, d), values=0.3 + 0.1 * np.arange(B * d).reshape(B, d), requires_grad=kw.pop('y0_grad', True))
    tst = torch.tensor(ts, dtype=torch.float64)
    if adjoint:
        ys = torchsde.sdeint_adjoint(sde, y0, tst, bm=bm, method=method, adjoint_method=adjoint_method, dt=dt, options=dict(opts), **kw)
    else:
        ys = torchsde.sdeint(sde, y0, tst, bm=bm, method=method, dt=dt, options=dict(opts), **kw)
    return sde, bm, y0, ys


def scenario(task):
    st, method, nt, opts, d, m, B, ts, dt, degy = task[:10]
    y0_grad = task[10] if len(task) > 10 else True
    mk = sdes.Maker(symbolic=True, seed=11)
    sde, bm, y0, ys = solve(mk, st, method, nt, opts, d, m, B, ts, dt, degy=degy, y0_grad=y0_grad)
    validate(ys, mk.env, 1e-8)
    loss = e1.weighted_loss(mk, ys)
    params = list(sde.parameters())
    if y0_grad:
        grads = torch.autograd.grad(loss, [y0] + params, allow_unused=True)
    else:       # the usual training set-up: a plain initial state, gradients wrt the parameters only
        grads = (None,) + tuple(torch.autograd.grad(loss, params, allow_unused=True))
    Zc = e1.Z()
    res = []
    lnode = loss.sym.reshape(-1)[0]
    dmemo = {}
    n_id = 0
    for tname, tensor, g in zip(['y0'] + [f'param{i}' for i in range(len(params))], [y0] + params, grads):
        if g is None:
            if tname != 'y0' or y0_grad:
                res.append((tname, 'none-gradient', {}))
            continue
        validate(g, mk.env, 1e-7)
        for k, (vn, gn) in enumerate(zip(tensor.sym.reshape(-1), g.sym.reshape(-1))):
            want = dag.diff(lnode, vn.args[0], dmemo if False else None)
            r, model = Zc.equal(gn, want)
            n_id += 1
            if r != 'unsat':
                res.append((f'{tname}[{k}]', r, model))
    # twin: gradient claimed equal to derivative + 1
    gi = 0 if y0_grad else 1
    tw_t = ([y0] + params)[gi]
    r, _ = Zc.equal(grads[gi].sym.reshape(-1)[0], dag.diff(lnode, tw_t.sym.reshape(-1)[0].args[0]) + dag.ONE)
    return dict(task=task, bad=res, identities=n_id, solver_s=Zc.solver_s, queries=Zc.queries, twin=(r == 'sat'))


def tasks_for(tier):
    T = []
    two, one = ([0.0, 0.13, 0.2], 0.1), ([0.0, 0.07, 0.1], 0.1)
    for st, method, nt, opts in e1.all_forward_configs():
        light = method in ('euler', 'milstein') and not opts.get('grad_free')
        ts, dt = two if light else one
        T.append((st, method, nt, opts, 1, 2, 1, ts, dt, 1 if (method == 'srk' and nt != 'additive') else 2))
        # plain y0 (no grad): parameter gradients only; the first step then runs on a state outside the autograd graph
        T.append((st, method, nt, opts, 1, 2, 1, [0.0, 0.1], 0.1, 1 if (method == 'srk' and nt != 'additive') else 2, False))
    if tier != 'quick':
        for st, method, nt, opts in e1.all_forward_configs():
            T.append((st, method, nt, opts, 1, 2, 1, two[0], two[1], 1))      # two steps, affine f,g
            T.append((st, method, nt, opts, 2, 2, 2, one[0], one[1], 1))      # d=2, batch 2
    return T


def run(ctx):
    ctx.fn('sdeint', 'check_contract', 'BaseSDESolver.integrate', 'interp.linear_interp', 'every solver step', 'ForwardSDE.*',
           'ForwardSDE.g_prod_and_gdg_prod_* (create_graph)', 'ForwardSDE.dg_ga_jvp_column_sum_v1', 'misc.vjp', 'misc.jvp',
           'torch.autograd.grad (PyTorch backward formulas, traced)')
    ctx.stubs.append('Brownian motion: deterministic stub keyed by the queried interval returning symbols (W, U, A)')
    ctx.bounds = {'steps': '2 fixed steps + 1 interpolated output (1 step for grad_free Milstein, SRK, log-ODE in quick)', 'dims': 'd=1 (quick); d=2, batch 2 (thorough)',
                  'generic f,g': 'polynomial degree (1,2) (affine in y for SRK diagonal/scalar and for d=2), all coefficients are parameters', 'loss': 'arbitrary linear weights on every output element'}
    ctx.assumptions += ['real arithmetic; "as measured by finite differences" is replaced by the exact symbolic derivative of the traced forward computation']
    ctx.outside += ['adaptive stepping', 'more than 2 steps', 'float error of autograd']
    tasks = tasks_for(ctx.tier)
    tw = 0
    for t, (st_, res) in zip(tasks, pmap(scenario, tasks)):
        name = f"{t[0]},{t[1]},{t[2]},{t[3] or ''} d={t[4]} B={t[6]} steps={len(t[7]) - 1}" + (' y0-plain' if len(t) > 10 and not t[10] else '')
        if st_ != 'ok':
            ctx.inconc(name, str(res)[:600]); continue
        ctx.paths += 1; ctx.queries += res['queries']; ctx.solver_s += res['solver_s']; ctx.validated += 1
        tw += bool(res['twin'])
        ctx.sample({'scenario': name, 'gradient_identities': res['identities']})
        if not res['bad']:
            ctx.ok(name, f"{res['identities']} gradient components"); continue
        n, r, m = res['bad'][0]
        if r == 'unknown':
            ctx.inconc(name, f'{n}: unknown'); continue
        gf = ',grad_free' if t[3].get('grad_free') else ''
        ctx.violation(f"{t[0]},{t[1]},{t[2]}{gf}|grad|{n.split('[')[0]}", f"autograd gradient wrt {n} differs from the derivative of the numerical solution ({r})",
                      replay=dict(task=list(t), model=m))
    ctx.twin('twin: gradient == derivative + 1 must fail', tw == len(tasks))


def replay(data):
    """plain float64 tensors: autograd gradient vs central finite differences of the real sdeint at the model point"""
    import torchsde
    r = data['replay']
    st, method, nt, opts, d, m, B, ts, dt, degy = r['task'][:10]
    y0_grad = r['task'][10] if len(r['task']) > 10 else True
    env = r.get('model') or {}

    def run_once(shift=None):
        mk = sdes.Maker(symbolic=False, env=dict(env), seed=11)
        if shift:
            mk.env.update(shift)
        sde, bm, y0, ys = solve(mk, st, method, nt, opts, d, m, B, ts, dt, degy=degy, y0_grad=y0_grad)
        w = mk('lw', tuple(ys.shape), values=0.5 + 0.1 * np.arange(ys.numel()).reshape(tuple(ys.shape)))
        return mk, sde, y0, (ys * w).sum()
    mk, sde, y0, loss = run_once()
    params = list(sde.parameters())
    if y0_grad:
        grads = torch.autograd.grad(loss, [y0] + params, allow_unused=True)
    else:
        grads = (None,) + tuple(torch.autograd.grad(loss, params, allow_unused=True))
    names = []
    for tname, tensor in zip(['y0', 'a', 'b'], [y0] + params):
        names += list(mk.names_for(tname, tuple(tensor.shape)).reshape(-1))
    gflat = torch.cat([(g if g is not None else torch.zeros_like(t_)).reshape(-1) for g, t_ in zip(grads, [y0] + params)]).tolist()
    worst = 0.0
    eps = 1e-6
    for nme, g in zip(names, gflat):
        if not y0_grad and nme.startswith('y0'):
            continue
        base = mk.env[nme]
        lp = float(run_once({nme: base + eps})[3]); lm = float(run_once({nme: base - eps})[3])
        fd = (lp - lm) / (2 * eps)
        worst = max(worst, abs(fd - g) / max(1.0, abs(fd)))
    print('replay C08: max relative |autograd - central difference| =', worst)
    return worst > 1e-5
