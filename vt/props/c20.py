"""C20 - batch rows are independent samples with no cross-talk.
E1: the real sdeint on a row-wise polynomial SDE with batch 2-3: the support (set of input symbols reachable in the DAG)
of output row i contains only row-i symbols of y0 and of the Brownian increments, plus shared parameters; where a foreign
symbol occurs syntactically z3 decides whether the value depends on it; permuting the input rows permutes the output DAGs.
E2: every element of a BrownianInterval sample is driven by its own noise element (support of the real tree code's outputs)."""
import time
from fractions import Fraction

import numpy as np
import torch

from .. import dag, sdes, e1, brownian as B, bshim
from ..core import pmap, Inconclusive
from ..symtorch import validate, SymT, Unsupported
from ..symx import Engine


def row_of(name):
    """batch row a symbol belongs to, or None for shared symbols (parameters, times)"""
    p = name.split('_')
    if p[0] == 'y0':
        return int(p[1])
    if p[0] in ('W', 'U'):
        return int(p[-2])
    if p[0] == 'Ax':
        return int(p[-3])
    return None


class PermBM:
    def __init__(self, bm, perm):
        self.bm, self.perm = bm, torch.tensor(perm)
        self.shape, self.dtype, self.device = bm.shape, bm.dtype, bm.device
        self.levy_area_approximation = bm.levy_area_approximation

    def __call__(self, ta, tb=None, return_U=False, return_A=False):
        r = self.bm(ta, tb, return_U=return_U, return_A=return_A)
        if isinstance(r, tuple):
            return tuple(x.index_select(0, self.perm) for x in r)
        return r.index_select(0, self.perm)


def scenario(task):
    import torchsde
    st, method, nt, opts, d, m, nb = task[:7]
    logqp = task[7] if len(task) > 7 else False
    mm = e1.noise_dim(nt, d, m)
    mk = sdes.Maker(symbolic=True, seed=51)
    sde = sdes.PolySDE(mk, st, nt, d=d, m=mm, degt=1, degy=2, with_h=logqp)
    bm = sdes.KeyedBM(mk, nb, mm + (1 if (logqp and nt == 'diagonal') else 0), levy=sdes.levy_for(method))
    y0 = mk('y0', (nb, d), values=0.3 + 0.1 * np.arange(nb * d).reshape(nb, d))
    ts = torch.tensor([0.0, 0.13, 0.2], dtype=torch.float64)
    kw = dict(logqp=True) if logqp else {}
    ys = torchsde.sdeint(sde, y0, ts, bm=bm, method=method, dt=0.1, options=dict(opts), **kw)
    lq = None
    if logqp:
        ys, lq = ys
        validate(lq, mk.env, 1e-7)
    validate(ys, mk.env, 1e-8)
    Zc = e1.Z()
    bad = []
    smemo = {}
    # pass 1: one-variable slices (everything but v at the base point, exact rationals): a dependency shows up here in
    # milliseconds with a concrete witness.  pass 2: the fully symbolic query (independence needs it).
    work = []
    for ti in range(ys.shape[0]):
        for b in range(nb):
            for k in range(d):
                node = ys.sym[ti, b, k]
                sup = dag.support(node, smemo)
                for v in sorted(u for u in sup if row_of(u) not in (None, b)):
                    work.append((ti, b, k, node, v, sup))
    if lq is not None:           # the log-ratio of row b is part of row b's solution
        for ti in range(lq.shape[0]):
            for b in range(nb):
                node = lq.sym[ti, b]
                sup = dag.support(node, smemo)
                for v in sorted(u for u in sup if row_of(u) not in (None, b)):
                    work.append((f'logqp {ti}', b, 0, node, v, sup))
    for ti, b, k, node, v, sup in work:
        # a generic rational point near the base point (the base point itself is degenerate: e.g. A = Ax - Ax^T = 0 there)
        at = {u: dag.lift(Fraction(mk.env[u]).limit_denominator(1000) + Fraction(i + 1, 89)) for i, u in enumerate(sorted(sup)) if u != v}
        r, model = Zc.equal(dag.diff(dag.substitute(node, at), v), dag.ZERO)
        if r != 'unsat':
            bad.append((f'ys[{ti},{b},{k}] depends on {v}', r))
            break
    if not bad:
        for ti, b, k, node, v, sup in work:
            r, model = Zc.equal(dag.diff(node, v), dag.ZERO)
            if r != 'unsat':
                bad.append((f'ys[{ti},{b},{k}] depends on {v}', r))
                break
    # permutation: swap rows 0 and 1 of y0 and of the Brownian motion
    perm = [1, 0] + list(range(2, nb))
    y0p = y0.index_select(0, torch.tensor(perm))
    ysp = torchsde.sdeint(sde, y0p, ts, bm=PermBM(bm, perm), method=method, dt=0.1, options=dict(opts), **kw)
    if logqp:
        ysp = ysp[0]
    want = ys.sym[:, perm, :]
    simp = {}
    for x, y in zip(ysp.sym.reshape(-1), want.reshape(-1)):
        if bad:
            break       # already decided by a concrete dependency witness
        if x is not y and dag.ieee_simplify(x, simp) is not dag.ieee_simplify(y, simp):
            sup = dag.support(x, smemo) | dag.support(y, smemo)
            at = {u: dag.lift(Fraction(mk.env[u]).limit_denominator(1000) + Fraction(i + 1, 89)) for i, u in enumerate(sorted(sup))}
            r, _ = Zc.equal(dag.substitute(x, at), dag.substitute(y, at))      # ground instance first
            if r == 'unsat':
                r, _ = Zc.equal(x, y)
            bad.append(('row permutation does not permute the outputs' + ('' if r != 'unsat' else ' (equal as reals, different float operations)'), 'structure' if r == 'unsat' else r))
            break
    return dict(task=task, bad=bad[:5], queries=Zc.queries, solver_s=Zc.solver_s)


def brownian_task(task):
    levy, size, nprior = task
    B.setup()
    E = Engine(max_paths=3000, timeout_ms=30000)
    size = tuple(size)

    def idx_of(name):
        # 'N<seed>s<shape>_i_j...' -> tuple of indices
        return tuple(int(x) for x in name.split('_')[1:])

    def h(E):
        try:
            bm, top, lo, hi = B.make(E, dict(levy=levy, size=size, cache_size=1))
            for k in range(nprior):
                a, b = B.sym_query(E, f'p{k}', lo, hi, Fraction(1, 8), Fraction(5, 8))
                bm(a, b)
            s, t = B.sym_query(E, 'q', lo, hi, Fraction(1, 4), Fraction(3, 4))
            kw = {}
            if levy in ('space-time', 'davie', 'foster'): kw['return_U'] = True
            if levy in ('davie', 'foster'): kw['return_A'] = True
            r = bm(s, t, **kw)
            r = r if isinstance(r, tuple) else (r,)
            memo = {}
            for nm, part in zip('WUA', r):
                for idx in np.ndindex(*part.shape):
                    for v in dag.support(part.sym[idx], memo):
                        if not v.startswith('N'):
                            continue
                        vi = idx_of(v)
                        if nm != 'A':
                            ok = vi == idx or (len(vi) == len(idx) + 1 and vi[:-2] == idx[:-1] and idx[-1] in vi[-2:])
                        else:
                            ok = (vi == idx or vi == idx[:-2] + (idx[-1], idx[-2]) or (len(vi) == len(idx) - 1 and vi[:-1] == idx[:-2] and vi[-1] in idx[-2:]))
                        if not ok:
                            E.fail(f'{nm}-element-crosstalk', 'concrete', f'{nm}{list(idx)} depends on noise element {v}')
                            return
            for sd, shp in bshim.NOISE_CALLS:
                if tuple(shp) not in (size, size + size[-1:]):
                    E.fail('noise-shape', 'concrete', f'noise drawn at shape {shp} for sample shape {size}')
        except (Inconclusive, Unsupported):
            raise
        except Exception as e:
            E.fail('crash', 'exception', f'{type(e).__name__}: {e}')
        finally:
            del bshim.NOISE_CALLS[:]
    fails = E.explore(h)
    return dict(stats=E.stats, nfail=len(fails), failures=[dict(what=f.what, detail=f.detail, inputs={k: str(v) for k, v in f.inputs.items()}) for f in fails[:3]])


def tasks_for(tier):
    T = [(st, method, nt, opts, 2, 2, 2) for st, method, nt, opts in e1.all_forward_configs()]
    # with the log-ratio output (its own code path: pseudo-inverse / stable division per row)
    T += [('ito', 'euler', nt, {}, 2, m_, 2, True) for nt, m_ in (('diagonal', 2), ('scalar', 1), ('additive', 2), ('general', 1), ('general', 2))]
    T += [('stratonovich', 'midpoint', 'scalar', {}, 2, 1, 2, True)]
    if tier != 'quick':
        T += [(st, method, nt, opts, 2, 2, 3) for st, method, nt, opts in e1.all_forward_configs(grad_free=False)]
    return T


def run(ctx):
    ctx.fn('sdeint', 'BaseSDESolver.integrate', 'every solver step', 'ForwardSDE.prod / g_prod / g_prod_and_gdg_prod_* / dg_ga_jvp_column_sum_v1',
           'BrownianInterval.__call__', '_Interval._increment_and_space_time_levy_area', '_davie_foster_approximation', '_Interval._randn / _randn_levy')
    ctx.stubs += ['Brownian motion for the solver part: stub keyed by interval with per-row symbols'] + bshim.STUBS
    ctx.bounds = {'batch': '2 (quick) / 3', 'dims': 'd=2, m=2', 'steps': '2 + interpolated output', 'Brownian shapes': '(2,), (2,2), (2,2,2), (2,3,3); <=1 symbolic prior query'}
    ctx.assumptions += ['row-wise user SDE (the generic polynomial SDE applies the same function to every row)']
    ctx.outside += ['batch sizes above the bound (kernels are uniform in the batch dimension)']
    tasks = tasks_for(ctx.tier)
    for t, (st_, res) in zip(tasks, pmap(scenario, tasks)):
        gf = ',grad_free' if t[3].get('grad_free') else ''
        name = f"{t[0]},{t[1]},{t[2]}{gf} batch={t[6]}" + (f" logqp m={t[5]}" if len(t) > 7 and t[7] else "")
        if st_ != 'ok':
            ctx.inconc(name, str(res)[:500]); continue
        ctx.paths += 1; ctx.queries += res['queries']; ctx.solver_s += res['solver_s']; ctx.validated += 2
        if not res['bad']:
            ctx.ok(name); continue
        what, r = res['bad'][0]
        if r == 'unknown':
            ctx.inconc(name, what); continue
        ctx.violation(f"{t[0]},{t[1]},{t[2]}{gf}|rows" + ('|logqp' if len(t) > 7 and t[7] else ''), what, replay=dict(task=list(t)))
    ctx.sample({'solver scenarios': len(tasks)})
    # several batch dimensions are a documented shape too: every leading index is a row of its own (seeded change C20d)
    bt = [('none', (2,), 1), ('space-time', (2, 2), 1), ('davie', (2, 2), 1), ('foster', (2, 2), 0), ('davie', (2, 2, 2), 1), ('foster', (2, 3, 3), 1)]
    for t, (st_, res) in zip(bt, pmap(brownian_task, bt)):
        name = f"Brownian elements levy={t[0]} size={t[1]} prior={t[2]}"
        if st_ != 'ok':
            ctx.inconc(name, str(res)[:400]); continue
        ctx.paths += res['stats']['paths']; ctx.queries += res['stats']['queries']; ctx.solver_s += res['stats']['solver_s']
        if res['nfail']:
            f = res['failures'][0]
            ctx.violation(f"brownian|{t[0]}|{f['what']}", f['detail'], replay=dict(brownian=True, levy=t[0], size=list(t[1]), inputs=f['inputs'], nprior=t[2]))
        else:
            ctx.ok(name, f"{res['stats']['paths']} paths")
    # twin: a deliberately coupled SDE (row mean in the drift) must be flagged
    ctx.twin('twin: an SDE whose drift uses the batch mean must show cross-talk', twin())


def twin():
    import torchsde
    mk = sdes.Maker(symbolic=True, seed=52)

    class Coupled(torch.nn.Module):
        sde_type = 'ito'; noise_type = 'diagonal'
        def f(self, t, y): return -y + y.mean(dim=0, keepdim=True)
        def g(self, t, y): return 0.1 + 0 * y
    bm = sdes.KeyedBM(mk, 2, 1)
    y0 = mk('y0', (2, 1))
    ys = torchsde.sdeint(Coupled(), y0, torch.tensor([0.0, 0.1], dtype=torch.float64), bm=bm, method='euler', dt=0.1)
    node = ys.sym[1, 0, 0]
    Zc = e1.Z()
    return any(row_of(v) == 1 and Zc.equal(dag.diff(node, v), dag.ZERO)[0] == 'sat' for v in dag.support(node))


def replay(data):
    import torchsde
    r = data['replay']
    if r.get('brownian'):
        size = tuple(r['size'])
        inp = {k: float(Fraction(v)) for k, v in r['inputs'].items()}
        from torchsde._brownian import brownian_interval as rbi
        real = rbi._randn
        levy = r['levy']
        kw = {}
        if levy in ('space-time', 'davie', 'foster'): kw['return_U'] = True
        if levy in ('davie', 'foster'): kw['return_A'] = True
        outs = []
        for bump in (0.0, 1.0):
            def randn(sz, dtype, device, seed, _b=bump):
                x = real(sz, dtype, device, seed).clone()
                if x.dim() >= 1 and _b:
                    # perturb everything that belongs to batch row 0 (= leading index (0,..,0) over ALL batch dimensions) of
                    # this draw (a non-symmetric bump, so that the antisymmetrised Levy noise changes too)
                    row0 = (0,) * max(1, len(size) - 1)
                    bump_ = torch.arange(1, x[row0].numel() + 1, dtype=x.dtype).reshape(x[row0].shape) * 0.37
                    x[row0] += bump_
                return x
            rbi._randn = randn
            try:
                bm = torchsde.BrownianInterval(0., 1., size=size, dtype=torch.float64, entropy=1234, levy_area_approximation=levy, cache_size=1)
                for k in range(r['nprior']):
                    bm(inp[f'p{k}a'], inp[f'p{k}b'])
                o = bm(inp['qa'], inp['qb'], **kw)
                outs.append(o if isinstance(o, tuple) else (o,))
            finally:
                rbi._randn = real
        bad = False
        for nm, a, b in zip('WUA', outs[0], outs[1]):
            d = (a - b).abs().clone()
            if len(size) > 2:
                d[(0,) * (len(size) - 1)] = 0       # everything outside row (0,..,0)
                other_rows = d
            else:
                other_rows = d[1:]
            print(f'replay C20 brownian: {nm}: max change in rows other than row 0 when row-0 noise is perturbed: {float(other_rows.max()) if other_rows.numel() else 0.0}')
            if other_rows.numel() and float(other_rows.max()) > 1e-12:
                bad = True
        return bad
    st, method, nt, opts, d, m, nb = r['task'][:7]
    logqp = r['task'][7] if len(r['task']) > 7 else False
    mm = e1.noise_dim(nt, d, m)
    mk = sdes.Maker(symbolic=False, seed=51)
    sde = sdes.PolySDE(mk, st, nt, d=d, m=mm, degt=1, degy=2, with_h=logqp)
    mb = mm + (1 if (logqp and nt == 'diagonal') else 0)
    ts = torch.tensor([0.0, 0.13, 0.2], dtype=torch.float64)

    def solve(y0, seed_rows):
        class RowBM(torchsde.BaseBrownian):
            shape = (nb, mb); dtype = torch.float64; device = torch.device('cpu'); levy_area_approximation = sdes.levy_for(method)
            def __init__(s): s.bms = [torchsde.BrownianInterval(0., 0.2, size=(1, mb), dtype=torch.float64, entropy=sd, levy_area_approximation=sdes.levy_for(method)) for sd in seed_rows]
            def __call__(s, ta, tb=None, return_U=False, return_A=False):
                rs = [b(ta, tb, return_U=return_U, return_A=return_A) for b in s.bms]
                if isinstance(rs[0], tuple):
                    return tuple(torch.cat([x[i] for x in rs], dim=0) for i in range(len(rs[0])))
                return torch.cat(rs, dim=0)
            def __repr__(s): return 'RowBM'
        out = torchsde.sdeint(sde, y0, ts, bm=RowBM(), method=method, dt=0.1, options=dict(opts), **(dict(logqp=True) if logqp else {}))
        if logqp:          # append the log-ratio increments as one more state column (first row of zeros) so rows are compared together
            ys_, lq_ = out
            return torch.cat([ys_, torch.cat([torch.zeros_like(lq_[:1]), lq_], dim=0).unsqueeze(-1)], dim=-1)
        return out
    y0 = torch.tensor(0.3 + 0.1 * np.arange(nb * d).reshape(nb, d))
    a = solve(y0, list(range(1, nb + 1)))
    y0b = y0.clone(); y0b[1:] += 0.7
    b = solve(y0b, [1] + [50 + k for k in range(nb - 1)])
    perm = [1, 0] + list(range(2, nb))
    c = solve(y0[perm], [list(range(1, nb + 1))[p] for p in perm])
    bad = not torch.equal(a[:, 0], b[:, 0]) or not torch.equal(c, a[:, perm])
    print('replay C20: row 0 changed when other rows change:', float((a[:, 0] - b[:, 0]).abs().max()), '; permutation mismatch:', float((c - a[:, perm]).abs().max()))
    return bad
