"""C09 - adjoint: same forward values as sdeint; gradient structure; exact agreement where the continuous adjoint is
exact on the grid (autonomous affine drift, additive noise, Euler both ways).  (E1)"""
import numpy as np
import torch

from .. import dag, sdes, e1
from ..core import pmap, Inconclusive
from ..symtorch import validate, SymT
from .c08 import solve


def fwd_scenario(task):
    """sdeint_adjoint returns exactly the values sdeint returns: identical float-operation DAGs"""
    st, method, nt, opts = task
    outs = []
    for adjoint in (True, False):
        mk = sdes.Maker(symbolic=True, seed=31)
        sde, bm, y0, ys = solve(mk, st, method, nt, opts, 2, 2, 1, [0.0, 0.13, 0.2], 0.1, degy=1, adjoint=adjoint)
        validate(ys, mk.env, 1e-8)
        outs.append(ys)
    diff = [i for i, (a, b) in enumerate(zip(e1.flat_nodes(outs[0]), e1.flat_nodes(outs[1]))) if a is not b]
    bits = torch.equal(outs[0].elem, outs[1].elem)
    return dict(task=task, diff=diff, bits=bits)


def grad_structure(task):
    """only y0 and the requested adjoint parameters receive gradients"""
    import torchsde
    st, method, adj_method, nt = task
    mk = sdes.Maker(symbolic=True, seed=33)
    mm = e1.noise_dim(nt, 2, 2)
    sde = sdes.PolySDE(mk, st, nt, d=2, m=mm, degt=1, degy=1, params_grad=True, unused_param=True)
    sde.frozen = torch.nn.Parameter(mk('frozen', (2,)), requires_grad=False)
    bm = sdes.KeyedBM(mk, 1, mm, levy=sdes.levy_for(method))
    y0 = mk('y0', (1, 2), requires_grad=True)
    ys = torchsde.sdeint_adjoint(sde, y0, torch.tensor([0.0, 0.1, 0.2], dtype=torch.float64), bm=bm, method=method,
                                 adjoint_method=adj_method, dt=0.1)
    loss = e1.weighted_loss(mk, ys)
    names = [n for n, _ in sde.named_parameters()]
    params = [p for _, p in sde.named_parameters()]
    req = [p for p in params if p.requires_grad]
    g = torch.autograd.grad(loss, [y0] + req, allow_unused=True)
    notes = []
    if g[0] is None:
        notes.append('no gradient for y0')
    for n, p, x in zip([n for n, p in zip(names, params) if p.requires_grad], req, g[1:]):
        if n == 'unused':
            if x is not None and any(v is not dag.ZERO and not (v.op == 'const' and v.args[0] == 0) for v in e1.flat_nodes(x)):
                # must be identically zero
                Zc = e1.Z()
                if any(Zc.equal(v, dag.ZERO)[0] != 'unsat' for v in e1.flat_nodes(x)):
                    notes.append('unused parameter received a non-zero gradient')
        elif x is None:
            notes.append(f'parameter {n} received no gradient')
    # restricting adjoint_params: the others must not get gradients
    y0b = mk('y0b', (1, 2), requires_grad=True)
    ys2 = torchsde.sdeint_adjoint(sde, y0b, torch.tensor([0.0, 0.1, 0.2], dtype=torch.float64), bm=bm, method=method,
                                  adjoint_method=adj_method, dt=0.1, adjoint_params=(sde.fa,))
    g2 = torch.autograd.grad(e1.weighted_loss(mk, ys2, 'lv'), [y0b, sde.fa, sde.gb], allow_unused=True)
    if g2[1] is None:
        notes.append('requested adjoint parameter got no gradient')
    if g2[2] is not None:
        notes.append('a tensor not in adjoint_params received a gradient')
    return dict(task=task, notes=notes)


def restore_scenario(task):
    """every backward segment [ts[i] -> ts[i-1]] starts from exactly the forward output ys[i] (identical DAG nodes) and with
    the cotangent accumulated so far; observed at the nested _SdeintAdjointMethod.apply calls of the real backward pass,
    generic NON-linear SDE, loss on a subset of the output times"""
    import torchsde
    import torchsde._core.adjoint as adj_mod
    from torchsde._core.adjoint_sde import AdjointSDE
    st, method, adj_method, nt, loss_mode, ts = task
    mk = sdes.Maker(symbolic=True, seed=37)
    mm = e1.noise_dim(nt, 2, 2)
    sde = sdes.PolySDE(mk, st, nt, d=2, m=mm, degt=1, degy=2, params_grad=True)
    bm = sdes.KeyedBM(mk, 1, mm, levy=sdes.levy_for(method))
    y0 = mk('y0', (1, 2), requires_grad=True)
    tst = torch.tensor(ts, dtype=torch.float64)
    ys = torchsde.sdeint_adjoint(sde, y0, tst, bm=bm, method=method, adjoint_method=adj_method, dt=0.125)
    sel = {'all': ys, 'middle': ys[1:2], 'last': ys[-1:], 'first-two': ys[:2]}[loss_mode]
    loss = e1.weighted_loss(mk, sel)
    calls = []
    cls = adj_mod._SdeintAdjointMethod
    real_apply = cls.apply

    def rec_apply(sde_, ts_, *rest):
        if isinstance(sde_, AdjointSDE):
            calls.append((ts_, rest[11]))        # (segment times, augmented state handed in)
        return real_apply(sde_, ts_, *rest)
    cls.apply = staticmethod(rec_apply)
    try:
        torch.autograd.grad(loss, [y0] + list(sde.parameters()), allow_unused=True)
    finally:
        cls.apply = real_apply
    notes = []
    n = ys.shape[0]
    want_idx = list(range(n - 1, 0, -1))
    if len(calls) != len(want_idx):
        notes.append(f'{len(calls)} backward segments for {n} output times')
    for (seg_ts, aug), i in zip(calls, want_idx):
        t_start = -float(seg_ts[0]); t_end = -float(seg_ts[1])
        if abs(t_start - ts[i]) > 1e-12 or abs(t_end - ts[i - 1]) > 1e-12:
            notes.append(f'segment runs from {t_start} to {t_end}, expected {ts[i]} -> {ts[i - 1]}')
            continue
        ypart = list(aug.sym.reshape(-1)[:2]) if isinstance(aug, SymT) else None
        want = list(ys.sym[i].reshape(-1))
        if ypart is None or any(a is not b for a, b in zip(ypart, want)):
            notes.append(f'backward segment starting at t={ts[i]} does not start from the forward output ys[{i}]')
    return dict(task=task, notes=notes, segments=len(calls))


def exact_scenario(task):
    """autonomous affine drift, additive constant noise, Euler / Euler adjoint on the same grid: the adjoint gradient wrt
    y0, the constant drift term and the diffusion coefficients equals backprop exactly (rational-function identity)"""
    d, m, ts, dt, loss_mode = task
    grads = []
    for adjoint in (True, False):
        mk = sdes.Maker(symbolic=True, seed=35)
        sde = sdes.PolySDE(mk, 'ito', 'additive', d=d, m=m, degt=0, degy=1, params_grad=True)
        s_, bm, y0, ys = solve(mk, 'ito', 'euler', 'additive', {}, d, m, 1, ts, dt, adjoint=adjoint,
                               adjoint_method='euler' if adjoint else None, sde=sde)
        validate(ys, mk.env, 1e-8)
        # the loss may depend on any subset of the output times
        if loss_mode == 'all':
            loss = e1.weighted_loss(mk, ys)
        elif loss_mode == 'middle':
            loss = e1.weighted_loss(mk, ys[1:2])
        else:
            loss = e1.weighted_loss(mk, ys[-1:])
        g = torch.autograd.grad(loss, [y0, sde.fa, sde.gb], allow_unused=True)
        grads.append(g)
    Zc = e1.Z()
    bad = []
    n = 0
    nmon = grads[0][1].shape[-1]
    for tname, ga, gb in zip(['y0', 'a', 'b'], grads[0], grads[1]):
        xs, ys_ = e1.flat_nodes(ga), e1.flat_nodes(gb)
        for k, (x, y) in enumerate(zip(xs, ys_)):
            if tname == 'a' and k % nmon != 0:
                continue          # d f / d A depends on the reconstructed state: O(h) close, not identical
            r, model = Zc.equal(x, y)
            n += 1
            if r != 'unsat':
                bad.append((f'{tname}[{k}]', r, model))
    r, _ = Zc.equal(e1.flat_nodes(grads[0][0])[0], e1.flat_nodes(grads[1][0])[0] + dag.ONE)
    return dict(task=task, bad=bad, identities=n, solver_s=Zc.solver_s, queries=Zc.queries, twin=(r == 'sat'))


def run(ctx):
    ctx.fn('sdeint_adjoint', '_SdeintAdjointMethod.forward / backward', '_select_default_adjoint_method', 'AdjointSDE.*', 'ReverseBrownian.__call__',
           'Euler.step / Milstein.step / Midpoint.step (as adjoint solvers)', 'sdeint (reference)')
    ctx.stubs.append('Brownian motion: deterministic stub keyed by the queried interval')
    ctx.bounds = {'forward identity': 'every accepted (sde_type, method, noise_type, grad_free), 2 steps + interpolated output, d=2',
                  'exact case': 'd<=2, m<=2, 2-3 output times on the grid, arbitrary loss weights', 'gradient structure': 'default adjoint method per (sde_type, noise_type) + reversible Heun'}
    ctx.fn('AdjointSDE.f_uncorrected / f_corrected_default / f_corrected_diagonal / g_prod / f_and_g_prod_* / g_prod_and_gdg_prod_diagonal (lemma)')
    ctx.assumptions += ['gradient convergence as dt->0 is reduced to: adjoint vector fields exact (lemma, discharged here with the C11 obligations), reverse path identical (C03/C05), '
                        'order of the adjoint solver on the adjoint SDE (C02 machinery), Milstein fundamental theorem (trusted)']
    ctx.outside += ['the dt -> 0 limit itself', 'closed-form gradient comparisons at finite dt (they agree only to O(dt^p))']
    T1 = e1.all_forward_configs()
    nbad = 0
    for t, (st_, res) in zip(T1, pmap(fwd_scenario, T1)):
        name = f"forward identity {t}"
        if st_ != 'ok':
            ctx.inconc(name, str(res)[:500]); continue
        ctx.paths += 1; ctx.validated += 2
        if res['diff'] or not res['bits']:
            gf = ',grad_free' if t[3].get('grad_free') else ''
            ctx.violation(f"{t[0]},{t[1]},{t[2]}{gf}|forward-values", f"sdeint_adjoint forward values differ from sdeint at output elements {res['diff'][:4]}",
                          replay=dict(kind='fwd', task=[t[0], t[1], t[2], t[3]]))
        else:
            ctx.ok(name)
    ctx.sample({'forward_identity_configs': len(T1)})
    T2 = [('ito', 'euler', None, 'diagonal'), ('ito', 'srk', None, 'additive'), ('ito', 'euler', None, 'general'), ('ito', 'euler', None, 'scalar'),
          ('stratonovich', 'midpoint', None, 'general'), ('stratonovich', 'reversible_heun', None, 'diagonal'), ('stratonovich', 'heun', 'euler_heun', 'scalar')]
    for t, (st_, res) in zip(T2, pmap(grad_structure, T2)):
        name = f"gradient structure {t}"
        if st_ != 'ok':
            ctx.inconc(name, str(res)[:500]); continue
        ctx.paths += 1
        if res['notes']:
            ctx.violation(f"{t[0]},{t[1]},{t[3]}|grad-structure", '; '.join(res['notes']), replay=dict(kind='structure', task=list(t)))
        else:
            ctx.ok(name)
    T4 = [('ito', 'euler', None, 'diagonal', 'middle', [0.0, 0.25, 0.5]), ('ito', 'srk', None, 'additive', 'all', [0.0, 0.25, 0.5]),
          ('stratonovich', 'midpoint', None, 'general', 'middle', [0.125, 0.25, 0.625]), ('stratonovich', 'heun', 'euler_heun', 'scalar', 'first-two', [0.0, 0.125, 0.25, 0.5]),
          ('ito', 'euler', None, 'general', 'last', [0.0, 0.25, 0.5])]
    for t, (st_, res) in zip(T4, pmap(restore_scenario, T4)):
        name = f"backward segments start from the stored forward outputs {t}"
        if st_ != 'ok':
            ctx.inconc(name, str(res)[:500]); continue
        ctx.paths += 1
        if res['notes']:
            ctx.violation(f"{t[0]},{t[1]},{t[3]},{t[4]}|segment-state", '; '.join(res['notes'][:2]), replay=dict(kind='restore', task=list(t)))
        else:
            ctx.ok(name, f"{res['segments']} segments")
    T3 = [(1, 1, [0.0, 0.1, 0.2], 0.1, 'all'), (2, 2, [0.0, 0.1, 0.2], 0.1, 'all'), (1, 2, [0.0, 0.1, 0.2], 0.1, 'middle'), (1, 1, [0.125, 0.25, 0.5], 0.125, 'last')] + \
         ([] if ctx.tier == 'quick' else [(2, 2, [0.0, 0.1, 0.2, 0.3], 0.1, 'all'), (1, 2, [0.0, 0.2, 0.3], 0.1, 'middle'), (2, 2, [0.0, 0.1, 0.3, 0.4], 0.1, 'middle')])
    tw = 0
    for t, (st_, res) in zip(T3, pmap(exact_scenario, T3)):
        name = f"exact affine/additive Euler adjoint == backprop {t}"
        if st_ != 'ok':
            ctx.inconc(name, str(res)[:500]); continue
        ctx.paths += 1; ctx.queries += res['queries']; ctx.solver_s += res['solver_s']; tw += bool(res['twin'])
        ctx.sample({'scenario': name, 'identities': res['identities']})
        if not res['bad']:
            ctx.ok(name, f"{res['identities']} gradient components"); continue
        n, r, mdl = res['bad'][0]
        if r == 'unknown':
            ctx.inconc(name, n); continue
        ctx.violation(f"exact-affine|{n.split('[')[0]}", f"adjoint gradient {n} differs from backprop in the exactly solvable case", replay=dict(kind='exact', task=list(t)))
    ctx.twin('twin: adjoint == backprop + 1 must fail', tw == len(T3))
    # lemma the convergence argument rests on: the adjoint SDE's vector fields are the prescribed ones (same obligations as C11,
    # discharged here too so that this check does not depend on another check having been run)
    from . import c11
    c11.check_fields(ctx, prefix='lemma adjoint-fields: ', sig_prefix='adjoint-fields|', extra=dict(kind='fields'))


def replay(data):
    if data['replay'].get('kind') == 'fields':
        from . import c11
        return c11.replay(data)
    import torchsde
    r = data['replay']
    if r['kind'] == 'fwd':
        st, method, nt, opts = r['task']
        outs = []
        for adjoint in (True, False):
            mk = sdes.Maker(symbolic=False, seed=31)
            sde, bm, y0, ys = solve(mk, st, method, nt, opts, 2, 2, 1, [0.0, 0.13, 0.2], 0.1, degy=1, adjoint=adjoint)
            outs.append(ys.detach())
        print('replay C09 forward: max diff', float((outs[0] - outs[1]).abs().max()))
        return not torch.equal(outs[0], outs[1])
    if r['kind'] == 'exact':
        d, m, ts, dt, loss_mode = r['task']
        out = []
        for adjoint in (True, False):
            mk = sdes.Maker(symbolic=False, seed=35)
            sde = sdes.PolySDE(mk, 'ito', 'additive', d=d, m=m, degt=0, degy=1, params_grad=True)
            s_, bm, y0, ys = solve(mk, 'ito', 'euler', 'additive', {}, d, m, 1, ts, dt, adjoint=adjoint, adjoint_method='euler' if adjoint else None, sde=sde)
            w = mk('lw', tuple(ys.shape), values=0.5 + 0.1 * np.arange(ys.numel()).reshape(tuple(ys.shape)))
            sel = ys if loss_mode == 'all' else (ys[1:2] if loss_mode == 'middle' else ys[-1:])
            g = torch.autograd.grad((sel * w[:sel.shape[0]]).sum(), [y0, sde.fa, sde.gb])
            nmon = g[1].shape[-1]
            out.append(torch.cat([g[0].reshape(-1), g[1].reshape(-1)[::nmon], g[2].reshape(-1)]))
        err = float((out[0] - out[1]).abs().max())
        print('replay C09 exact case: max abs diff', err)
        return err > 1e-10
    if r['kind'] == 'restore':
        return replay_restore(r['task'])
    res = grad_structure_plain(r['task'])
    print('replay C09 structure:', res)
    return bool(res)


def replay_restore(task):
    """float64: the adjoint gradient for a loss on a subset of output times must approach the backprop gradient as dt -> 0"""
    import torchsde
    st, method, adj_method, nt, loss_mode, ts = task
    mm = e1.noise_dim(nt, 2, 2)
    errs = []
    for dt in (2.0 ** -5, 2.0 ** -8):
        out = []
        for adjoint in (True, False):
            mk = sdes.Maker(symbolic=False, seed=37)
            sde = sdes.PolySDE(mk, st, nt, d=2, m=mm, degt=1, degy=2, params_grad=True)
            for p_ in sde.parameters():
                p_.data.mul_(0.5)
            bm = torchsde.BrownianInterval(ts[0], ts[-1], size=(1, mm), dtype=torch.float64, entropy=77, levy_area_approximation=sdes.levy_for(method))
            y0 = torch.tensor([[0.3, 0.4]], dtype=torch.float64, requires_grad=True)
            fn = torchsde.sdeint_adjoint if adjoint else torchsde.sdeint
            kw = dict(adjoint_method=adj_method) if adjoint else {}
            ys = fn(sde, y0, torch.tensor(ts, dtype=torch.float64), bm=bm, method=method, dt=dt, **kw)
            sel = {'all': ys, 'middle': ys[1:2], 'last': ys[-1:], 'first-two': ys[:2]}[loss_mode]
            g = torch.autograd.grad(sel.sum(), [y0] + list(sde.parameters()), allow_unused=True)
            out.append(torch.cat([x.reshape(-1) for x in g if x is not None]))
        errs.append(float((out[0] - out[1]).norm() / out[1].norm()))
    print('replay C09 restore: relative |adjoint - backprop| at dt=2^-5, 2^-8:', errs)
    return errs[1] > 0.5 * errs[0] and errs[1] > 1e-2


def grad_structure_plain(task):
    import torchsde
    st, method, adj_method, nt = task
    mk = sdes.Maker(symbolic=False, seed=33)
    mm = e1.noise_dim(nt, 2, 2)
    sde = sdes.PolySDE(mk, st, nt, d=2, m=mm, degt=1, degy=1, params_grad=True, unused_param=True)
    bm = torchsde.BrownianInterval(0., 0.2, size=(1, mm), dtype=torch.float64, entropy=3, levy_area_approximation=sdes.levy_for(method))
    y0 = torch.tensor([[0.1, 0.2]], dtype=torch.float64, requires_grad=True)
    ys = torchsde.sdeint_adjoint(sde, y0, torch.tensor([0.0, 0.1, 0.2], dtype=torch.float64), bm=bm, method=method, adjoint_method=adj_method,
                                 dt=0.1, adjoint_params=(sde.fa,))
    g = torch.autograd.grad(ys.sum(), [y0, sde.fa, sde.gb], allow_unused=True)
    notes = []
    if g[1] is None: notes.append('requested adjoint parameter got no gradient')
    if g[2] is not None: notes.append('a tensor not in adjoint_params received a gradient')
    return notes
