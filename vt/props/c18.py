"""C18 - logqp returns the path-wise KL integrand and does not disturb the solution (E1: real sdeint(..., logqp=True))."""
from fractions import Fraction

import numpy as np
import torch
import z3

from .. import dag, sdes, e1, symtorch
from ..core import pmap
from ..dag import ZERO, lift
from ..symtorch import validate, SymT


class WithPrior(torch.nn.Module):
    """f, g from a generic polynomial SDE; prior drift h generic, or h = f - g c for a constant vector c"""

    def __init__(self, base, c=None, rowscale=None):
        super().__init__()
        self.base = base
        self.sde_type, self.noise_type = base.sde_type, base.noise_type
        self.c = c
        self.rowscale = rowscale          # additive noise: state-independent diffusion that differs from batch row to batch row

    def f(self, t, y): return self.base.f(t, y)

    def g(self, t, y):
        g = self.base.g(t, y)
        return g if self.rowscale is None else g * self.rowscale

    def h(self, t, y):
        if self.c is None:
            return self.base.h(t, y)
        g = self.g(t, y)
        gc = g * self.c if self.noise_type == 'diagonal' else torch.bmm(g, self.c.expand(g.shape[0], -1).unsqueeze(-1)).squeeze(-1)
        return self.base.f(t, y) - gc


def scenario(task):
    import torchsde
    st, method, nt, opts, d, m, mode = task[:7]
    NB = task[7] if len(task) > 7 else 1          # batch size
    mm = e1.noise_dim(nt, d, m)
    ts = [0.0, 0.1, 0.2]
    tst = torch.tensor(ts, dtype=torch.float64)

    def build():
        mk = sdes.Maker(symbolic=True, seed=81)
        base = sdes.PolySDE(mk, st, nt, d=d, m=mm, degt=1, degy=1 if mode == 'const' else 2, with_h=True)
        c = mk('cc', (1, mm), values=0.4 - 0.3 * np.arange(mm).reshape(1, mm)) if mode == 'const' else None
        rs = None
        if nt == 'additive' and NB > 1:
            rs = mk('rs', (NB, 1, 1), values=1.0 + 0.5 * np.arange(NB).reshape(NB, 1, 1))
        sde = WithPrior(base, c, rs)
        y0 = mk('y0', (NB, d), values=0.6 + 0.1 * np.arange(NB * d).reshape(NB, d))
        # with logqp the state has one more channel: a diagonal-noise Brownian motion needs one more channel too
        return mk, sde, y0, c
    mk, sde, y0, c = build()
    bm_l = sdes.KeyedBM(mk, NB, mm + (1 if nt == 'diagonal' else 0), levy=sdes.levy_for(method))
    out = torchsde.sdeint(sde, y0, tst, bm=bm_l, method=method, dt=0.1, options=dict(opts), logqp=True)
    ys, lq = out
    validate(ys, mk.env, 1e-7); validate(lq, mk.env, 1e-7)
    notes = []
    if tuple(lq.shape) != (len(ts) - 1, NB):
        notes.append(f'logqp output has shape {tuple(lq.shape)}, expected {(len(ts) - 1, NB)}')
    Zc = e1.Z()
    bad = []
    n = 0
    # state trajectory identical to the one without logqp under the same noise (first d channels of the same Brownian symbols)
    mk2, sde2, y02, _ = build()

    class Narrow:
        def __init__(s, bm): s.bm = bm; s.shape = (NB, mm); s.dtype = bm.dtype; s.device = bm.device; s.levy_area_approximation = bm.levy_area_approximation
        def __call__(s, ta, tb=None, return_U=False, return_A=False):
            r = bm_l(ta, tb, return_U=return_U, return_A=return_A)
            cut = (lambda x: x[:, :mm] if x.dim() == 2 else x[:, :mm, :mm])
            return tuple(cut(x) for x in r) if isinstance(r, tuple) else cut(r)
    ys_plain = torchsde.sdeint(sde2, y02, tst, bm=Narrow(bm_l) if nt == 'diagonal' else bm_l, method=method, dt=0.1, options=dict(opts))
    simp = {}
    for k, (a, b) in enumerate(zip(e1.flat_nodes(ys), e1.flat_nodes(ys_plain))):
        if a is b or dag.ieee_simplify(a, simp) is dag.ieee_simplify(b, simp):
            continue
        r, model = Zc.equal(a, b)
        n += 1
        bad.append((f'state[{k}] differs from the solution without logqp' + (' (as a real function)' if r != 'unsat' else ' (different float operations)'), 'sat' if r != 'unsat' else 'structure', model))
        break
    # diagonal noise goes through misc.stable_division: the regular branch |g| > 1e-7 is the stated assumption
    imemo = {}
    conds = []
    pairs = []
    lqn = [dag.take_ite_true(x, conds, imemo, pairs)[0] for x in e1.flat_nodes(lq)]
    regular = [dag.to_z3(cn, Zc.zenv, Zc.memo, []) for cn in conds]
    # ... and the code's own guard must select the regular branch on the WHOLE stated domain |g| > 1e-7 (either sign):
    # where(cond, g, ...) keeps the denominator g itself when cond holds, so (|g| > 1e-7 and not cond) must be unsatisfiable
    import z3 as _z3
    for cn, den in pairs[:4]:
        zden = dag.to_z3(den, Zc.zenv, Zc.memo, [])
        s_ = _z3.Solver(); s_.set('timeout', 30000)
        s_.add(_z3.Or(zden > _z3.RealVal('1/10000000'), zden < -_z3.RealVal('1/10000000')), _z3.Not(dag.to_z3(cn, Zc.zenv, Zc.memo, [])))
        from ..core import z3_check
        r = z3_check(s_, 30000)
        n += 1
        if r == 'sat':
            mdl = s_.model(); model = {}
            for dcl in mdl.decls():
                try:
                    v = mdl[dcl]; model[dcl.name()] = float(Fraction(v.numerator_as_long(), v.denominator_as_long()))
                except Exception:
                    pass
            bad.append(('the guard of stable_division rejects a denominator with |g| > 1e-7', 'sat', model))
            break
    dt = lift(0.1)
    if mode == 'const':
        # f - h = g c  =>  increment = 1/2 |c|^2 (t_i - t_{i-1}) for every solver (full column rank assumed)
        cs = c.sym[0]
        half_c2 = ZERO
        for j in range(mm):
            half_c2 = dag._add(half_c2, dag._mul(cs[j], cs[j]))
        for i, node in enumerate(lqn):
            ti = i // NB
            want = lift(0.5) * half_c2 * lift(ts[ti + 1] - ts[ti])
            r, model = Zc.equal(node, want, assumptions=regular)
            n += 1
            if r != 'unsat':
                bad.append((f'logqp[{ti}]' + (f'[row {i % NB}]' if NB > 1 else '') + ' != 1/2 |c|^2 dt', r, model))
    elif method == 'euler':
        # Euler: increment over [t_{i-1}, t_i] (one step) = 1/2 |u(t_{i-1}, y_{i-1})|^2 dt, u = g^+ (f - h)
        for i, node in enumerate(lqn):
            yprev = ys[i]
            t = tst[i]
            f = sde.f(t, yprev).sym[0]; h = sde.h(t, yprev).sym[0]; g = sde.g(t, yprev).sym[0]
            if nt == 'diagonal':
                u2 = ZERO
                for k in range(d):
                    uk = (f[k] - h[k]) / g[k]
                    u2 = dag._add(u2, uk * uk)
                assume = [dag.to_z3(dag.Node('gt', dag.Node('abs', g[k]), lift(1e-7)), Zc.zenv, Zc.memo, []) for k in range(d)]
            else:
                # m = 1 or 2, full column rank: u = (g^T g)^-1 g^T (f - h)
                gt_fh = [dag._add(ZERO, sum_nodes([g[k, j] * (f[k] - h[k]) for k in range(d)])) for j in range(mm)]
                if mm == 1:
                    gg = sum_nodes([g[k, 0] * g[k, 0] for k in range(d)])
                    us = [gt_fh[0] / gg]
                else:
                    a = sum_nodes([g[k, 0] * g[k, 0] for k in range(d)]); b = sum_nodes([g[k, 0] * g[k, 1] for k in range(d)])
                    dd = sum_nodes([g[k, 1] * g[k, 1] for k in range(d)])
                    det = a * dd - b * b
                    us = [(dd * gt_fh[0] - b * gt_fh[1]) / det, (a * gt_fh[1] - b * gt_fh[0]) / det]
                u2 = sum_nodes([u * u for u in us])
                assume = []
            want = lift(0.5) * u2 * dt
            r, model = Zc.equal(node, want, assumptions=assume + regular)
            n += 1
            if r != 'unsat':
                bad.append((f'logqp[{i}] != 1/2 |g^+(f-h)|^2 dt at the Euler grid state', r, model))
    # non-negativity (for all symbol values): z3 on the traced increment
    if mode != 'const':
        for i, node in enumerate(lqn):
            side = []
            zn = dag.to_z3(node, Zc.zenv, Zc.memo, side)
            s = z3.Solver(); s.set('timeout', 30000)
            s.add(*[cc for _, cc in side]); s.add(*regular); s.add(zn < 0)
            import time as _t
            t0 = _t.time(); r = str(s.check()); Zc.solver_s += _t.time() - t0; Zc.queries += 1
            n += 1
            if r == 'sat':
                bad.append((f'logqp[{i}] can be negative', 'sat', {}))
            elif r != 'unsat':
                notes.append(f'non-negativity of logqp[{i}] not decided by z3 ({r}); not claimed for this configuration')
    r, _ = Zc.equal(lqn[0], lqn[0] + dag.ONE)
    return dict(task=task, bad=bad[:3], notes=notes, identities=n, queries=Zc.queries, solver_s=Zc.solver_s, twin=(r == 'sat'),
                pinv=len(symtorch.PINV_USED))


def sum_nodes(xs):
    tot = ZERO
    for x in xs:
        tot = dag._add(tot, x)
    return tot


def tasks_for(tier):
    T = []
    q = tier == 'quick'
    for st, method, nt, opts in e1.all_forward_configs(grad_free=False):
        multi_stage = method not in ('euler', 'milstein')
        if (nt in ('scalar', 'general') and multi_stage) or (method == 'srk' and nt == 'diagonal'):
            # pinverse at several stage states: the rational normal form does not cancel within the budget -> not claimed
            continue
        m = 1 if nt == 'scalar' or (q and nt == 'general') else 2
        T.append((st, method, nt, opts, 2 if nt != 'diagonal' else 1, m, 'const'))
    for nt in ('diagonal', 'scalar', 'additive', 'general'):
        d = 1 if nt in ('diagonal', 'general') else 2
        T.append(('ito', 'euler', nt, {}, d, 1 if nt in ('scalar', 'general') else 2, 'generic'))
    # batch of two rows with different states: the increment of a row must not involve the other row
    for nt in ('diagonal', 'scalar', 'general', 'additive'):
        T.append(('ito', 'euler', nt, {}, 2 if nt != 'diagonal' else 1, 2 if nt == 'additive' else 1, 'const', 2))
    if not q:
        for st, method in (('stratonovich', 'midpoint'), ('stratonovich', 'heun'), ('ito', 'milstein'), ('stratonovich', 'reversible_heun')):
            for nt in ('diagonal', 'additive'):
                T.append((st, method, nt, {}, 1, 2, 'generic'))
    return T


def run(ctx):
    ctx.fn('sdeint(logqp=True)', 'check_contract (state augmentation)', 'SDELogqp.f_diagonal / g_diagonal / f_and_g_diagonal / f_general / g_general / f_and_g_general',
           'misc.stable_division', 'misc.batch_mvp', 'parse_return (increments)', 'every solver step')
    ctx.stubs += ['Brownian motion: stub keyed by interval', 'Tensor.pinverse -> closed form (g^T g)^-1 g^T (tall) / g^T (g g^T)^-1 (wide) through the traced kernels (full rank assumed, Gram matrix <= 2x2)']
    ctx.bounds = {'output intervals': 2, 'dims': 'd<=2, m<=2', 'exact constant case': 'every solver x noise type, affine f,g, symbolic constant vector c',
                  'integrand formula': 'Euler, all four noise types, quadratic f,g,h'}
    ctx.assumptions += ['|g| > 1e-7 (stable_division branch) / full column rank of g']
    ctx.outside += ['non-negativity where z3 does not decide the polynomial inequality within 30 s (reported in notes, not claimed)', 'the exact constant case for scalar/general noise with multi-stage solvers and for SRK with diagonal noise (pseudo-inverse / division at several stage states: normal form does not cancel within the budget)']
    tasks = tasks_for(ctx.tier)
    tw = 0
    for t, (st_, res) in zip(tasks, pmap(scenario, tasks)):
        name = f"{t[0]},{t[1]},{t[2]} d={t[4]} m={t[5]} {t[6]}" + (f" batch={t[7]}" if len(t) > 7 else "")
        if st_ != 'ok':
            ctx.inconc(name, str(res)[:500]); continue
        ctx.paths += 1; ctx.queries += res['queries']; ctx.solver_s += res['solver_s']; ctx.validated += 2
        tw += bool(res['twin'])
        ctx.sample({'scenario': name, 'identities': res['identities']})
        for nn in res['notes']:
            if nn.startswith('logqp output has shape'):
                ctx.violation(f"{t[0]},{t[1]},{t[2]}|shape", nn, replay=dict(task=list(t)))
            else:
                ctx.notes.append(f'{name}: {nn}')
        if not res['bad']:
            ctx.ok(name, f"{res['identities']} identities"); continue
        n, r, mdl = res['bad'][0]
        if r == 'unknown':
            ctx.inconc(name, n); continue
        ctx.violation(f"{t[0]},{t[1]},{t[2]}|{t[6]}|{n.split('[')[0]}", n, replay=dict(task=list(t), model=mdl))
    ctx.twin('twin: increment claimed equal to itself + 1 must be refuted', tw > 0 and tw >= len(tasks) - len(ctx.inconclusive))


def replay(data):
    import torchsde
    r = data['replay']
    st, method, nt, opts, d, m, mode = r['task'][:7]
    NB = r['task'][7] if len(r['task']) > 7 else 1
    mm = e1.noise_dim(nt, d, m)
    env = r.get('model') or {}
    ts = torch.tensor([0.0, 0.1, 0.2], dtype=torch.float64)
    mk = sdes.Maker(symbolic=False, env=env, seed=81)
    base = sdes.PolySDE(mk, st, nt, d=d, m=mm, degt=1, degy=1 if mode == 'const' else 2, with_h=True)
    c = mk('cc', (1, mm), values=0.4 - 0.3 * np.arange(mm).reshape(1, mm)) if mode == 'const' else None
    rs = mk('rs', (NB, 1, 1), values=1.0 + 0.5 * np.arange(NB).reshape(NB, 1, 1)) if (nt == 'additive' and NB > 1) else None
    sde = WithPrior(base, c, rs)
    y0 = mk('y0', (NB, d), values=0.6 + 0.1 * np.arange(NB * d).reshape(NB, d))
    bm = torchsde.BrownianInterval(0., 0.2, size=(NB, mm + (1 if nt == 'diagonal' else 0)), dtype=torch.float64, entropy=4, levy_area_approximation=sdes.levy_for(method))
    ys, lq = torchsde.sdeint(sde, y0, ts, bm=bm, method=method, dt=0.1, options=dict(opts), logqp=True)
    bad = []
    if tuple(lq.shape) != (2, NB): bad.append(f'shape {tuple(lq.shape)}')
    if float(lq.min()) < -1e-12: bad.append(f'negative increment {float(lq.min())}')
    if mode == 'const':
        want = 0.5 * float((c ** 2).sum()) * 0.1
        if float((lq - want).abs().max()) > 1e-8: bad.append(f'increments {lq.reshape(-1).tolist()} expected {want}')
    elif method == 'euler':
        for i in range(2):
            f, g, h = sde.f(ts[i], ys[i]), sde.g(ts[i], ys[i]), sde.h(ts[i], ys[i])
            u = (f - h) / g if nt == 'diagonal' else torch.bmm(torch.linalg.pinv(g), (f - h).unsqueeze(-1)).squeeze(-1)
            want = 0.5 * float((u ** 2).sum()) * 0.1
            if abs(float(lq[i]) - want) > 1e-8 * max(1, abs(want)): bad.append(f'increment {i}: {float(lq[i])} expected {want}')
    print('replay C18:', bad or 'ok')
    return bool(bad)
