"""C17 - special noise types agree with their general-noise embedding (E1): the same polynomial SDE declared
diagonal / scalar / additive and declared `general` with its diffusion written as (batch, d, m) matrices, same symbolic
Brownian increments; outputs equal as real functions for every solver accepting both declarations."""
import numpy as np
import torch

from .. import dag, sdes, e1
from ..core import pmap
from ..symtorch import validate

METHODS = {'ito': ['euler'], 'stratonovich': ['euler_heun', 'heun', 'midpoint', 'reversible_heun', 'log_ode']}


class AsGeneral(torch.nn.Module):
    """the same drift/diffusion declared with noise_type='general'"""

    def __init__(self, base):
        super().__init__()
        self.base = base
        self.sde_type = base.sde_type
        self.noise_type = 'general'

    def f(self, t, y):
        return self.base.f(t, y)

    def g(self, t, y):
        g = self.base.g(t, y)
        if self.base.noise_type == 'diagonal':
            d = g.shape[-1]
            return g.unsqueeze(-1) * torch.eye(d, dtype=g.dtype)
        return g


class RowScaled(torch.nn.Module):
    """the same SDE with the diffusion of batch row b multiplied by a per-row factor: state-independent (additive) noise
    need not be the same for every sample of the batch (per-sample conditioning)"""

    def __init__(self, base, scale):
        super().__init__()
        self.base = base
        self.scale = scale
        self.sde_type = base.sde_type
        self.noise_type = base.noise_type

    def f(self, t, y):
        return self.base.f(t, y)

    def g(self, t, y):
        g = self.base.g(t, y)
        return g * self.scale.reshape((-1,) + (1,) * (g.dim() - 1))


def scenario(task):
    import torchsde
    st, method, nt, d, m, nsteps = task[:6]
    degy = task[6] if len(task) > 6 else 2
    adaptive = task[7] if len(task) > 7 else None          # (rtol, atol): adaptive stepping on the control-flow path of the base point
    NB = task[8] if len(task) > 8 else 1                    # batch size; > 1: per-row diffusion scale
    mm = e1.noise_dim(nt, d, m)
    outs = []
    meshes = []
    ts = [0.0, 0.07, 0.1] if nsteps == 1 else [0.0, 0.13, 0.2]
    kw = dict(adaptive=True, rtol=adaptive[0], atol=adaptive[1], dt_min=1e-4) if adaptive else {}
    for general in (False, True):
        mk = sdes.Maker(symbolic=True, seed=61)
        base = sdes.PolySDE(mk, st, nt, d=d, m=mm, degt=1, degy=degy)
        if NB > 1:
            base = RowScaled(base, mk('rowscale', (NB,), values=1.0 + 0.5 * np.arange(NB)))
        sde = AsGeneral(base) if general else base
        bm = sdes.KeyedBM(mk, NB, mm, levy=sdes.levy_for(method))
        y0 = mk('y0', (NB, d), values=0.3 + 0.1 * np.arange(NB * d).reshape(NB, d))
        ys = torchsde.sdeint(sde, y0, torch.tensor(ts, dtype=torch.float64), bm=bm, method=method, dt=0.1, **kw)
        validate(ys, mk.env, 1e-8)
        outs.append(ys)
        meshes.append(list(bm.calls))
    Zc = e1.Z()
    bad = []
    n = 0
    if meshes[0] != meshes[1]:
        k = next((i for i, (a, b) in enumerate(zip(meshes[0], meshes[1])) if a != b), min(len(meshes[0]), len(meshes[1])))
        bad.append((f'step mesh (Brownian query #{k}: {meshes[0][k:k + 1]} vs {meshes[1][k:k + 1]}; {len(meshes[0])} vs {len(meshes[1])} queries)', 'sat', {}))
    for k, (x, y) in enumerate(zip(e1.flat_nodes(outs[0]), e1.flat_nodes(outs[1]))):
        r, model = Zc.equal(x, y)
        n += 1
        if r != 'unsat':
            bad.append((f'output[{k}]', r, model))
    r, _ = Zc.equal(e1.flat_nodes(outs[0])[-1], e1.flat_nodes(outs[1])[-1] + dag.ONE)
    return dict(task=task, bad=bad[:3], identities=n, queries=Zc.queries, solver_s=Zc.solver_s, twin=(r == 'sat'))


def controller_task(task):
    """the adaptive controller of the REAL integrate loop / update_step_size walks the same mesh whatever the solver's
    declaration-dependent metadata (strong_order, noise type): two runs on the same symbolic error estimates (E2)"""
    import types
    from fractions import Fraction
    from .. import loopmodel
    from ..symx import Engine, PathAbort
    from ..core import Inconclusive
    from ..symtorch import Unsupported
    from torchsde._core import adaptive_stepping
    max_trials, nout = task
    EPS = Fraction(1, 10 ** 7)
    E = Engine(max_paths=4000, timeout_ms=30000)
    E.stop_after_failures = 3

    def h(E):
        real_err = adaptive_stepping.compute_error
        errs = []
        try:
            ts = [E.input(f'ts{i}', Fraction(i, 1)) for i in range(nout)]
            dt = E.input('dt', Fraction(1, 2)); dtmin = E.input('dtmin', Fraction(1, 8))
            for a, b in zip(ts[:-1], ts[1:]):
                E.assume(a < b)
            E.assume((dtmin > 0) & (dt >= dtmin))
            logs = []
            truncated = []
            for order, nt in ((Fraction(1, 2), 'general'), (Fraction(1), 'diagonal'), (Fraction(3, 2), 'additive')):
                idx = [0]

                def ce(y11, y12, rtol, atol, eps=1e-7):
                    k = idx[0]; idx[0] += 1
                    if k >= len(errs):
                        e = E.fresh('err', 2)
                        E.assume(e >= EPS)
                        errs.append(e)
                    return errs[k]
                adaptive_stepping.compute_error = ce
                s = loopmodel.make_stub_solver(dt, True, dtmin)
                s.strong_order = float(order); s.weak_order = 1.0
                s.sde = types.SimpleNamespace(noise_type=nt, sde_type='stratonovich')
                orig = s.step

                def counted(*a, s=s, orig=orig):
                    if len(s.log) >= 3 * max_trials:
                        raise PathAbort('trial bound')
                    return orig(*a)
                s.step = counted
                try:
                    s.integrate(loopmodel.fresh_state('y0', value=0.3), ts, (loopmodel.fresh_state('x0', value=0.2),))
                except PathAbort:
                    truncated.append(nt)          # trial bound: the steps logged so far are still compared
                logs.append(s.log)
            for other, nm in zip(logs[1:], ('diagonal', 'additive')):
                if len(other) != len(logs[0]) and not truncated:
                    E.fail(f'controller-mesh-{nm}', 'concrete', f'{len(logs[0]) // 3} trials declared general, {len(other) // 3} declared {nm}')
                    continue
                for i, (p, q) in enumerate(zip(logs[0], other)):
                    if not E.prove(f'controller-mesh-{nm}', (p['t0'] == q['t0']) & (p['t1'] == q['t1'])):
                        break
            if truncated:
                raise PathAbort('trial bound')
        except (Inconclusive, Unsupported, PathAbort):
            raise
        except Exception as e:
            import traceback
            E.fail('controller-crash', 'exception', f"{type(e).__name__}: {e} | {traceback.format_exc()[-400:]}")
        finally:
            adaptive_stepping.compute_error = real_err
    fails = E.explore(h)
    return dict(stats=E.stats, nfail=len(fails), failures=[dict(what=f.what, kind=f.kind, inputs={k: str(v) for k, v in f.inputs.items()}, detail=f.detail[:300]) for f in fails[:5]])


def tasks_for(tier):
    T = []
    for st, ms in METHODS.items():
        for method in ms:
            for nt in ('diagonal', 'scalar', 'additive'):
                T.append((st, method, nt, 2, 2, 1))
    # adaptive stepping: both declarations must walk the same mesh (the controller may depend on the error estimate only)
    for nt in ('diagonal', 'additive'):
        T.append(('ito', 'euler', nt, 1, 2, 2, 1, (1e-2, 1e-2)))
    # batch of two rows whose diffusions differ by a per-row factor (state-independent noise need not be batch-independent)
    for st, method in (('ito', 'euler'), ('stratonovich', 'midpoint'), ('stratonovich', 'reversible_heun')):
        for nt in ('additive', 'scalar', 'diagonal'):
            T.append((st, method, nt, 1, 2, 1, 1, None, 2))
    if tier != 'quick':
        for st, ms in METHODS.items():
            for method in ms:
                for nt in ('diagonal', 'scalar', 'additive'):
                    T.append((st, method, nt, 1, 2, 2, 1))      # two steps, affine f, g
    return T


def run(ctx):
    ctx.fn('BaseSDESolver.integrate (adaptive branch)', 'adaptive_stepping.update_step_size', 'sdeint', 'ForwardSDE.prod_diagonal', 'ForwardSDE.prod_default (bmm)', 'ForwardSDE.g_prod_default', 'ForwardSDE.f_and_g_prod_default*',
           'ForwardSDE.dg_ga_jvp_column_sum_v1 / _return_zero', 'Euler / EulerHeun / Heun / Midpoint / ReversibleHeun / LogODEMidpoint .step')
    ctx.stubs.append('adaptive controller task: step() returns fresh states, compute_error returns an arbitrary value >= 1e-7 (the same for both declarations), x**a uninterpreted but functional')
    ctx.stubs.append('Brownian motion: stub keyed by interval; identical symbols for both declarations (log_ode: antisymmetric symbolic A)')
    ctx.bounds = {'dims': 'd=2, m=2 (d=1, two steps in thorough)', 'steps': '1 (+ interpolated output); adaptive: the accept/reject path taken at the base point over [0, 0.2], rtol=atol=1e-2', 'f,g': 'polynomial degree (1,2), symbolic coefficients'}
    ctx.assumptions += ['equality as real functions (g*v vs bmm with structural zeros are different float operations, bit-identity is not claimed)']
    ctx.outside += ['milstein / srk (do not accept general noise)']
    tasks = tasks_for(ctx.tier)
    tw = 0
    for t, (st_, res) in zip(tasks, pmap(scenario, tasks)):
        name = f"{t[0]},{t[1]}: {t[2]} vs general embedding d={t[3]} steps={t[5]}" + (f" adaptive rtol=atol={t[7][0]}" if len(t) > 7 and t[7] else "") + (f" batch={t[8]} per-row diffusion" if len(t) > 8 else "")
        if st_ != 'ok':
            ctx.inconc(name, str(res)[:500]); continue
        ctx.paths += 1; ctx.queries += res['queries']; ctx.solver_s += res['solver_s']; ctx.validated += 2
        tw += bool(res['twin'])
        ctx.sample({'scenario': name, 'identities': res['identities']})
        if not res['bad']:
            ctx.ok(name, f"{res['identities']} output components"); continue
        n, r, mdl = res['bad'][0]
        if r == 'unknown':
            ctx.inconc(name, n); continue
        ctx.violation(f"{t[0]},{t[1]},{t[2]}|general-embedding" + ('|adaptive' if len(t) > 7 and t[7] else ''), f"{n} differs between the {t[2]} declaration and its general embedding", replay=dict(task=list(t)))
    ctx.twin('twin: outputs claimed to differ by 1 must be refuted', tw == len(tasks))
    # lemma the log-ODE comparison rests on: the Levy area handed to the solver is antisymmetric with a zero diagonal - also
    # when a step's query is answered by MERGING stored pieces of the real BrownianInterval (a Brownian object used before on
    # another grid, or built with a dt hint) - otherwise a commutative diffusion declared `general` picks up dg.g.A_kk terms
    # that its diagonal/scalar declaration short-circuits to zero.  Same obligations as C04's merged-area law (E2).
    from . import c04
    from .. import brownian as Bm
    lt = [('levy', dict(levy='davie', size=(1, 2)), 'merge', None, 3000, 60000), ('levy', dict(levy='foster', size=(1, 2)), 'merge', None, 3000, 60000)]
    for t, (st_, res) in zip(lt, pmap(c04.run_one, lt)):
        name = f"lemma merged Levy area antisymmetric {t[1]['levy']}"
        if st_ != 'ok':
            ctx.inconc(name, str(res)[:400]); continue
        ctx.paths += res['stats']['paths']; ctx.queries += res['stats']['queries']; ctx.solver_s += res['stats']['solver_s']
        if not res['nfail']:
            ctx.ok(name, f"{res['stats']['paths']} paths"); continue
        f = res['failures'][0]
        what = f['what'].split('[')[0]
        if f['kind'] == 'unknown':
            ctx.inconc(name, f['detail'][:200]); continue
        ctx.violation(f"levy-lemma|{t[1]['levy']}|{what}", f"{f['what']} fails: {f['detail'][:200]}",
                      replay=dict(lemma='c04', kind=t[0], cfg=c04._jsonable(t[1]), a=t[2], b=t[3], inputs=f['inputs'], what=what, full=f['what']))
    ct = [(2, 2)] if ctx.tier == 'quick' else [(3, 2), (2, 3)]
    for t, (st_, res) in zip(ct, pmap(controller_task, ct)):
        name = f"adaptive controller independent of declaration metadata: <= {t[0]} trials, {t[1]} output times"
        if st_ != 'ok':
            ctx.inconc(name, str(res)[:500]); continue
        ctx.paths += res['stats']['paths']; ctx.queries += res['stats']['queries']; ctx.solver_s += res['stats']['solver_s']
        if not res['nfail']:
            ctx.ok(name, f"{res['stats']['paths']} paths"); continue
        f = res['failures'][0]
        if f['kind'] == 'unknown':
            ctx.inconc(name, f['detail']); continue
        ctx.violation(f"adaptive-controller|{f['what']}", f"{f['what']}: {f['detail'] or 'step mesh depends on the declared noise type / advertised order'}",
                      replay=dict(kind='controller', inputs=f['inputs']))


def replay(data):
    if data['replay'].get('lemma') == 'c04':
        from . import c04
        return c04.replay(data)
    import torchsde
    if data['replay'].get('kind') == 'controller':
        # numeric: adaptive solves of the same SDE declared special / general on the same Brownian path
        worst = 0.0
        for st, method in (('ito', 'euler'), ('stratonovich', 'heun'), ('stratonovich', 'midpoint'), ('stratonovich', 'reversible_heun')):
            for nt in ('diagonal', 'additive'):
                outs = []
                for general in (False, True):
                    mk = sdes.Maker(symbolic=False, seed=61)
                    base = sdes.PolySDE(mk, st, nt, d=2, m=2, degt=1, degy=2)
                    sde = AsGeneral(base) if general else base
                    bm = torchsde.BrownianInterval(0., 1., size=(1, 2), dtype=torch.float64, entropy=5)
                    y0 = torch.tensor([[0.3, 0.4]], dtype=torch.float64)
                    with torch.no_grad():
                        outs.append(torchsde.sdeint(sde, y0, torch.tensor([0., 0.5, 1.], dtype=torch.float64), bm=bm, method=method, dt=0.05,
                                                    adaptive=True, rtol=1e-2, atol=1e-2, dt_min=1e-5))
                worst = max(worst, float((outs[0] - outs[1]).abs().max()))
        print('replay C17 adaptive: max abs difference special vs general', worst)
        return worst > 1e-9
    task = data['replay']['task']
    st, method, nt, d, m, nsteps = task[:6]
    degy = task[6] if len(task) > 6 else 2
    adaptive = task[7] if len(task) > 7 else None
    NB = task[8] if len(task) > 8 else 1
    kw = dict(adaptive=True, rtol=adaptive[0], atol=adaptive[1], dt_min=1e-4) if adaptive else {}
    mm = e1.noise_dim(nt, d, m)
    ts = [0.0, 0.07, 0.1] if nsteps == 1 else [0.0, 0.13, 0.2]
    if adaptive:
        ts = [0.0, 0.5, 1.0]
    outs = []
    for general in (False, True):
        mk = sdes.Maker(symbolic=False, seed=61)
        base = sdes.PolySDE(mk, st, nt, d=d, m=mm, degt=1, degy=degy)
        if NB > 1:
            base = RowScaled(base, torch.tensor(1.0 + 0.5 * np.arange(NB)))
        sde = AsGeneral(base) if general else base
        bm = torchsde.BrownianInterval(0., ts[-1], size=(NB, mm), dtype=torch.float64, entropy=5, levy_area_approximation=sdes.levy_for(method))
        y0 = torch.tensor(0.3 + 0.1 * np.arange(NB * d).reshape(NB, d))
        outs.append(torchsde.sdeint(sde, y0, torch.tensor(ts, dtype=torch.float64), bm=bm, method=method, dt=0.1, **kw))
    err = float((outs[0] - outs[1]).abs().max())
    print('replay C17: max abs difference', err)
    return err > 1e-10
