"""C17 - special noise types agree with their general-noise embedding (E1): the same polynomial SDE declared
diagonal / scalar / additive and declared `general` with its diffusion written as (batch, d, m) matrices, same symbolic
Brownian increments; outputs equal as real functions for every solver accepting both declarations."""
import numpy as np
import torch

from .. import dag, sdes, e1
from ..core import pmap
from ..symtorch import validate

METHODS = {'ito': ['euler'], 'stratonovich': ['euler_heun', 'heun', 'midpoint', 'reversible_heun', 'log_ode']}


class AsGeneral(torch.nn.Module):
    """the same drift/diffusion declared with noise_type='general'"""

    def __init__(self, base):
        super().__init__()
        self.base = base
        self.sde_type = base.sde_type
        self.noise_type = 'general'

    def f(self, t, y):
        return self.base.f(t, y)

    def g(self, t, y):
        g = self.base.g(t, y)
        if self.base.noise_type == 'diagonal':
            d = g.shape[-1]
            return g.unsqueeze(-1) * torch.eye(d, dtype=g.dtype)
        return g


def scenario(task):
    import torchsde
    st, method, nt, d, m, nsteps = task[:6]
    degy = task[6] if len(task) > 6 else 2
    mm = e1.noise_dim(nt, d, m)
    outs = []
    ts = [0.0, 0.07, 0.1] if nsteps == 1 else [0.0, 0.13, 0.2]
    for general in (False, True):
        mk = sdes.Maker(symbolic=True, seed=61)
        base = sdes.PolySDE(mk, st, nt, d=d, m=mm, degt=1, degy=degy)
        sde = AsGeneral(base) if general else base
        bm = sdes.KeyedBM(mk, 1, mm, levy=sdes.levy_for(method))
        y0 = mk('y0', (1, d), values=0.3 + 0.1 * np.arange(d).reshape(1, d))
        ys = torchsde.sdeint(sde, y0, torch.tensor(ts, dtype=torch.float64), bm=bm, method=method, dt=0.1)
        validate(ys, mk.env, 1e-8)
        outs.append(ys)
    Zc = e1.Z()
    bad = []
    n = 0
    for k, (x, y) in enumerate(zip(e1.flat_nodes(outs[0]), e1.flat_nodes(outs[1]))):
        r, model = Zc.equal(x, y)
        n += 1
        if r != 'unsat':
            bad.append((f'output[{k}]', r, model))
    r, _ = Zc.equal(e1.flat_nodes(outs[0])[-1], e1.flat_nodes(outs[1])[-1] + dag.ONE)
    return dict(task=task, bad=bad[:3], identities=n, queries=Zc.queries, solver_s=Zc.solver_s, twin=(r == 'sat'))


def tasks_for(tier):
    T = []
    for st, ms in METHODS.items():
        for method in ms:
            for nt in ('diagonal', 'scalar', 'additive'):
                T.append((st, method, nt, 2, 2, 1))
    if tier != 'quick':
        for st, ms in METHODS.items():
            for method in ms:
                for nt in ('diagonal', 'scalar', 'additive'):
                    T.append((st, method, nt, 1, 2, 2, 1))      # two steps, affine f, g
    return T


def run(ctx):
    ctx.fn('sdeint', 'ForwardSDE.prod_diagonal', 'ForwardSDE.prod_default (bmm)', 'ForwardSDE.g_prod_default', 'ForwardSDE.f_and_g_prod_default*',
           'ForwardSDE.dg_ga_jvp_column_sum_v1 / _return_zero', 'Euler / EulerHeun / Heun / Midpoint / ReversibleHeun / LogODEMidpoint .step')
    ctx.stubs.append('Brownian motion: stub keyed by interval; identical symbols for both declarations (log_ode: antisymmetric symbolic A)')
    ctx.bounds = {'dims': 'd=2, m=2 (d=1, two steps in thorough)', 'steps': '1 (+ interpolated output)', 'f,g': 'polynomial degree (1,2), symbolic coefficients'}
    ctx.assumptions += ['equality as real functions (g*v vs bmm with structural zeros are different float operations, bit-identity is not claimed)']
    ctx.outside += ['milstein / srk (do not accept general noise)']
    tasks = tasks_for(ctx.tier)
    tw = 0
    for t, (st_, res) in zip(tasks, pmap(scenario, tasks)):
        name = f"{t[0]},{t[1]}: {t[2]} vs general embedding d={t[3]} steps={t[5]}"
        if st_ != 'ok':
            ctx.inconc(name, str(res)[:500]); continue
        ctx.paths += 1; ctx.queries += res['queries']; ctx.solver_s += res['solver_s']; ctx.validated += 2
        tw += bool(res['twin'])
        ctx.sample({'scenario': name, 'identities': res['identities']})
        if not res['bad']:
            ctx.ok(name, f"{res['identities']} output components"); continue
        n, r, mdl = res['bad'][0]
        if r == 'unknown':
            ctx.inconc(name, n); continue
        ctx.violation(f"{t[0]},{t[1]},{t[2]}|general-embedding", f"{n} differs between the {t[2]} declaration and its general embedding", replay=dict(task=list(t)))
    ctx.twin('twin: outputs claimed to differ by 1 must be refuted', tw == len(tasks))


def replay(data):
    import torchsde
    task = data['replay']['task']
    st, method, nt, d, m, nsteps = task[:6]
    degy = task[6] if len(task) > 6 else 2
    mm = e1.noise_dim(nt, d, m)
    ts = [0.0, 0.07, 0.1] if nsteps == 1 else [0.0, 0.13, 0.2]
    outs = []
    for general in (False, True):
        mk = sdes.Maker(symbolic=False, seed=61)
        base = sdes.PolySDE(mk, st, nt, d=d, m=mm, degt=1, degy=degy)
        sde = AsGeneral(base) if general else base
        bm = torchsde.BrownianInterval(0., ts[-1], size=(1, mm), dtype=torch.float64, entropy=5, levy_area_approximation=sdes.levy_for(method))
        y0 = torch.tensor(0.3 + 0.1 * np.arange(d).reshape(1, d))
        outs.append(torchsde.sdeint(sde, y0, torch.tensor(ts, dtype=torch.float64), bm=bm, method=method, dt=0.1))
    err = float((outs[0] - outs[1]).abs().max())
    print('replay C17: max abs difference', err)
    return err > 1e-10
