"""C01 - convergence at the advertised strong order, decided through its standard proof obligations.

(i)  the strong order p is read from the REAL solver object (methods.select + constructor) for every accepted
     (sde_type, method, noise_type, grad_free);
(ii) the one-step conditions of Milstein's fundamental theorem of mean-square convergence are decided symbolically on the
     real step(): all terms of grade <= 2p agree with the stochastic Taylor expansion (=> mean-square local error
     O(h^{p+1/2})) and the Gaussian expectation agrees to grade 2p+1 (=> mean local error O(h^{p+1})) - machinery of C02;
(iii) the real integrate loop consumes bm(t_k, t_{k+1}) for exactly the tiling t_k = ts0 + k dt of [ts0, ts_end] (the path
     supplied is the path used) - machinery of C12 plus a recording Brownian proxy on every real solver.
The limit dt -> 0 itself and the RMS over paths are not a bounded query; the theorem is trusted."""
import math
import time
from fractions import Fraction

import numpy as np
import torch

from .. import sdes, e1
from ..core import pmap
from . import c02, c12


def tiling_task(task):
    """every real solver queries the Brownian motion on exactly the step intervals, once per step"""
    import torchsde
    st, method, nt, opts = task
    d, m = 2, 2
    mm = e1.noise_dim(nt, d, m)
    mk = sdes.Maker(symbolic=False, seed=5)
    sde = sdes.PolySDE(mk, st, nt, d=d, m=mm, degt=1, degy=1)
    q = []

    class Rec(torchsde.BaseBrownian):
        def __init__(s, bm): s.bm = bm
        def __call__(s, ta, tb=None, return_U=False, return_A=False):
            q.append((float(ta), float(tb))); return s.bm(ta, tb, return_U=return_U, return_A=return_A)
        shape = property(lambda s: s.bm.shape); dtype = property(lambda s: s.bm.dtype); device = property(lambda s: s.bm.device)
        levy_area_approximation = property(lambda s: s.bm.levy_area_approximation)
        def __repr__(s): return 'Rec'
    bad = []
    for ts, dt in (([0.0, 0.3, 0.55], 0.125), ([0.0, 1.0], 0.25), ([0.2, 0.21, 0.22, 0.9], 0.25)):
        del q[:]
        bm = Rec(torchsde.BrownianInterval(ts[0], ts[-1], size=(1, mm), dtype=torch.float64, entropy=3, levy_area_approximation=sdes.levy_for(method)))
        torchsde.sdeint(sde, torch.full((1, d), 0.1, dtype=torch.float64), ts, bm=bm, method=method, dt=dt, options=dict(opts))
        grid = []
        t = ts[0]; k = 0
        while t < ts[-1]:
            nt_ = min(ts[0] + (k + 1) * dt, ts[-1]); grid.append((t, nt_)); t = nt_; k += 1
        if len(q) != len(grid) or any(abs(a - c) > 1e-12 or abs(b - e) > 1e-12 for (a, b), (c, e) in zip(q, grid)):
            bad.append(f'ts={ts} dt={dt}: Brownian queries {q[:6]} expected {grid[:6]}')
    return dict(task=task, bad=bad)


def run(ctx):
    ctx.fn('methods.select', 'solver constructors (strong_order)', 'every solver step (as C02)', 'BaseSDESolver.integrate', 'sdeint')
    ctx.stubs.append('as C02 (symbolic increments) and C12 (abstract step for the loop model)')
    ctx.bounds = dict(c02_bounds='d=1 (quick) / d<=2; degree (1,3); one step', loop='<=4 outputs, <=3 steps symbolic (C12 harness); 3 concrete grids per real solver')
    ctx.assumptions += ['Milstein fundamental theorem: local mean error O(h^{p+1}) and local mean-square error O(h^{p+1/2}) with Lipschitz smooth coefficients '
                        'imply strong order p for the one-step scheme (trusted, not mechanised)',
                        'orders are read from the code: lowering an advertised order never alarms, raising it above the truth does',
                        'outputs strictly inside a step are linear interpolants (C12) and are order 1/2 by construction: the claim is for grid times and ts[-1]']
    ctx.outside += ['the limit dt -> 0 and the RMS over sample paths themselves', 'adaptive stepping: "the error shrinks as tolerances are tightened" (the loop invariants of the adaptive branch are discharged, the monotone limit is not)',
                    'reversible Heun beyond the first step from a consistent state (its extra state z makes later steps start from a perturbed state; '
                    'the advertised order 0.5 is checked for one step)']
    tasks = c02.task_list(ctx.tier)
    for t, (st_, res) in zip(tasks, pmap(c02.analyse, tasks)):
        if st_ != 'ok':
            ctx.inconc(str(t[:4]), str(res)[:600]); continue
        ctx.sample({'config': res['config'], 'strong_order_read_from_solver': res['p'], 'identities': res['queries']})
        c02.report(ctx, res)
    # loop tiling (symbolic, real integrate) ...
    c02.purity_obligations(ctx)      # the step analysed above is the step taken at every point of a solve
    c02.aliasing_obligations(ctx)    # ... also for user SDEs that hand back live tensors (the state, stored coefficients)
    # adaptive stepping: accepted steps tile [ts[0], ts[-1]], each is the two-half-step solution over exactly its own interval,
    # rejected trials leave (t, y, extra) untouched (the C14 obligations, discharged here as the lemma convergence rests on)
    from . import c14
    c14.check_schedules(ctx, prefix='lemma adaptive loop: ', sig_prefix='adaptive-loop|', extra=dict(kind='adaptive'), tier='quick')
    lt = c12.tasks_for('quick')[:2]
    for t, (st_, res) in zip(lt, pmap(c12.run_one, lt)):
        name = f"integrate tiling nout={t[0]} max_steps={t[1]}"
        if st_ != 'ok':
            ctx.inconc(name, str(res)[:400]); continue
        ctx.paths += res['stats']['paths']; ctx.queries += res['stats']['queries']; ctx.solver_s += res['stats']['solver_s']
        if res['nfail']:
            f = res['failures'][0]
            ctx.violation(f"integrate|{''.join(c for c in f['what'] if not c.isdigit())}", f"{f['what']}: {f['detail'][:200]}",
                          replay=dict(kind='loop', nout=t[0], inputs=f['inputs']))
        else:
            ctx.ok(name, f"{res['stats']['paths']} paths")
    # ... and on every real solver with a recording Brownian proxy
    tt = e1.all_forward_configs()
    for t, (st_, res) in zip(tt, pmap(tiling_task, tt)):
        gf = ',grad_free' if t[3].get('grad_free') else ''
        name = f"Brownian queries tile the horizon: {t[0]},{t[1]},{t[2]}{gf}"
        if st_ != 'ok':
            ctx.inconc(name, str(res)[:400]); continue
        ctx.validated += 3
        if res['bad']:
            ctx.violation(f"{t[0]},{t[1]},{t[2]}{gf}|tiling", res['bad'][0], replay=dict(kind='tiling', task=[t[0], t[1], t[2], t[3]]))
        else:
            ctx.ok(name)
    st_, res = pmap(c02.analyse, [('ito', 'euler', 'diagonal', {}, 1, 1, 1, 2, 1.0)])[0]
    ctx.twin('twin: Euler (diagonal noise) at claimed order 1.0 must fail', st_ == 'ok' and any(f['result'] == 'sat' for f in res['fails']))


# ---------------------------------------------------------------- replay: empirical strong order against a closed form
def empirical_order(st, method, nt, opts, npaths=4000):
    """RMS error of the real sdeint at ts[-1] against a closed-form solution driven by the same Brownian path"""
    import torchsde
    torch.manual_seed(0)

    class SinhSDE(torch.nn.Module):        # dX = sqrt(1+X^2) o dW  (Stratonovich),  X_t = sinh(asinh(x0) + W_t);  Ito: + X/2 dt
        sde_type = st
        noise_type = nt
        def f(self, t, y): return 0.5 * y if st == 'ito' else torch.zeros_like(y)
        def g(self, t, y):
            g = torch.sqrt(1 + y ** 2)
            return g if nt == 'diagonal' else g.unsqueeze(-1)

    class OU(torch.nn.Module):             # additive: dX = -X dt + (1 + t) dW ; exact solution not needed: reference = fine solve
        sde_type = st
        noise_type = nt
        def f(self, t, y): return -y
        def g(self, t, y): return (1 + t) * torch.ones(y.shape[0], 1, 1, dtype=y.dtype)
    x0 = 0.5
    errs = []
    dts = [2.0 ** -4, 2.0 ** -6, 2.0 ** -8]
    levy = sdes.levy_for(method)
    for dt in dts:
        bm = torchsde.BrownianInterval(0., 1., size=(npaths, 1), dtype=torch.float64, entropy=11, levy_area_approximation=levy)
        y0 = torch.full((npaths, 1), x0, dtype=torch.float64)
        if nt == 'additive' or nt == 'general':
            sde = OU() if nt == 'additive' else None
            if sde is None:
                return None
            ys = torchsde.sdeint(sde, y0, [0., 1.], bm=bm, method=method, dt=dt, options=dict(opts))
            ref = torchsde.sdeint(sde, y0, [0., 1.], bm=bm, method=method, dt=2.0 ** -12, options=dict(opts))
            exact = ref[-1]
        else:
            sde = SinhSDE()
            ys = torchsde.sdeint(sde, y0, [0., 1.], bm=bm, method=method, dt=dt, options=dict(opts))
            W = bm(0., 1.)
            exact = torch.sinh(math.asinh(x0) + W)
        errs.append(float(((ys[-1] - exact) ** 2).mean().sqrt()))
    orders = [math.log(errs[i] / errs[i + 1]) / math.log(dts[i] / dts[i + 1]) for i in range(len(dts) - 1)]
    return errs, orders


def replay(data):
    r = data['replay']
    if r.get('kind') == 'loop':
        return c12.replay({'replay': dict(nout=r['nout'], inputs=r['inputs'])})
    if r.get('kind') == 'tiling':
        res = tiling_task(tuple(r['task']))
        print('replay C01 tiling:', res['bad'])
        return bool(res['bad'])
    if r.get('kind') in ('purity', 'aliasing'):
        return c02.replay(data)
    if r.get('kind') == 'adaptive':
        from . import c14
        return c14.replay(data)
    # a local-order defect found by the series analysis: first confirm the coefficient numerically (C02 replay), then measure
    # the empirical strong order of the real sdeint against a closed form
    ok = c02.replay(data)
    st, method, nt, opts = r['config'][:4]
    out = empirical_order(st, method, nt, opts)
    if out is not None:
        errs, orders = out
        print(f'replay C01: RMS errors {errs}, empirical strong orders {orders}, advertised {r.get("p")}')
        if r.get('p') and orders[-1] < float(r['p']) - 0.25:
            return True
    return ok
