"""Generic polynomial SDE programs with symbolic coefficients, and stub Brownian motions returning symbolic increments.

"For all smooth f, g" is realised by polynomials in (t, y) whose COEFFICIENTS are symbols: every Taylor coefficient of a
solver step up to grade K depends only on the K-jet of (f, g) at the base point, and every jet is attained by such a
polynomial, so an identity proved for all coefficient values holds for all smooth f, g up to the stated grade.
The same classes run on plain tensors (symbolic=False) for replays.
"""
import itertools

import numpy as np
import torch

from .symtorch import SymT, sym_tensor
from .dag import var


class Maker:
    """creates named tensors: symbolic (SymT of variables) or concrete (values from env, else defaults)"""

    def __init__(self, symbolic=True, env=None, seed=0, dtype=torch.float64):
        self.symbolic = symbolic
        self.env = dict(env or {})
        self.rng = np.random.RandomState(seed)
        self.dtype = dtype
        self.names = []

    def names_for(self, name, shape):
        if shape == ():
            return np.array(name, dtype=object)
        a = np.empty(shape, dtype=object)
        for idx in np.ndindex(*shape):
            a[idx] = name + '_' + '_'.join(map(str, idx))
        return a

    def __call__(self, name, shape=(), scale=1.0, values=None, requires_grad=False):
        shape = tuple(shape)
        names = self.names_for(name, shape)
        if values is None:
            values = self.rng.uniform(-1, 1, size=shape) * scale
        values = np.array(values, dtype=float).reshape(shape)
        flatn = names.reshape(-1) if shape else [str(names)]
        vals = values.reshape(-1).copy()
        for i, n in enumerate(flatn):
            if n in self.env:
                vals[i] = float(self.env[n])
            else:
                self.env[n] = float(vals[i])
            self.names.append(n)
        values = vals.reshape(shape)
        if self.symbolic:
            t = sym_tensor(values.tolist(), names.tolist() if shape else str(names), requires_grad=requires_grad, dtype=self.dtype)
        else:
            t = torch.tensor(values.tolist(), dtype=self.dtype)
            if requires_grad:
                t.requires_grad_()
        return t


def monomials(d, deg):
    out = []
    for total in range(deg + 1):
        for beta in itertools.product(range(total + 1), repeat=d):
            if sum(beta) == total:
                out.append(beta)
    return out


class PolySDE(torch.nn.Module):
    """dy = f dt + g dW with f_i, g_ij polynomials of degree (degt, degy) in (t, y) and symbolic coefficients.
    diagonal: g_i depends on y_i only (as torchsde requires); additive: g depends on t only."""

    def __init__(self, mk, sde_type, noise_type, d=1, m=1, degt=1, degy=2, params_grad=False, with_h=False, unused_param=False):
        super().__init__()
        self.sde_type = sde_type
        self.noise_type = noise_type
        self.d, self.m, self.degt, self.degy = d, m, degt, degy
        self.mons = monomials(d, degy)
        P = (lambda t: torch.nn.Parameter(t)) if params_grad else (lambda t: t)
        self.fa = P(mk('a', (d, degt + 1, len(self.mons)), requires_grad=params_grad))
        if noise_type == 'diagonal':
            self.gb = P(mk('b', (d, degt + 1, degy + 1), requires_grad=params_grad))
        elif noise_type == 'scalar':
            self.gb = P(mk('b', (d, degt + 1, len(self.mons)), requires_grad=params_grad))
        elif noise_type == 'additive':
            self.gb = P(mk('b', (d, m, degt + 1), requires_grad=params_grad))
        else:
            self.gb = P(mk('b', (d, m, degt + 1, len(self.mons)), requires_grad=params_grad))
        if with_h:
            self.hc = P(mk('c', (d, degt + 1, len(self.mons)), requires_grad=params_grad))
        if unused_param:
            self.unused = P(mk('unused', (2,), requires_grad=params_grad))

    def _tpow(self, t):
        out = [1.0]
        for a in range(1, self.degt + 1):
            out.append(t ** a)
        return out

    def _ymons(self, y):
        cols = [y[:, i] for i in range(self.d)]
        out = []
        for beta in self.mons:
            term = None
            for i, e in enumerate(beta):
                if e:
                    p = cols[i] ** e if e > 1 else cols[i]
                    term = p if term is None else term * p
            out.append(term)       # None for the constant monomial
        return out

    def _poly(self, coef, tp, ym, like):
        """sum_{a,k} coef[a,k] t^a ymon_k ; coef indexable [a][k]"""
        tot = None
        for a in range(self.degt + 1):
            for k, mon in enumerate(ym):
                c = coef[a][k]
                term = c * tp[a] if a else c
                term = term * mon if mon is not None else term + 0 * like
                tot = term if tot is None else tot + term
        return tot

    def f(self, t, y):
        tp = self._tpow(t)
        ym = self._ymons(y)
        return torch.stack([self._poly(self.fa[i], tp, ym, y[:, 0]) for i in range(self.d)], dim=1)

    def h(self, t, y):
        tp = self._tpow(t)
        ym = self._ymons(y)
        return torch.stack([self._poly(self.hc[i], tp, ym, y[:, 0]) for i in range(self.d)], dim=1)

    def g(self, t, y):
        tp = self._tpow(t)
        nt = self.noise_type
        like = y[:, 0]
        if nt == 'diagonal':
            cols = []
            for i in range(self.d):
                yi = y[:, i]
                tot = None
                for a in range(self.degt + 1):
                    for j in range(self.degy + 1):
                        c = self.gb[i][a][j]
                        term = c * tp[a] if a else c
                        term = term * (yi ** j if j > 1 else yi) if j else term + 0 * like
                        tot = term if tot is None else tot + term
                cols.append(tot)
            return torch.stack(cols, dim=1)
        ym = self._ymons(y)
        if nt == 'scalar':
            return torch.stack([self._poly(self.gb[i], tp, ym, like) for i in range(self.d)], dim=1).unsqueeze(-1)
        if nt == 'additive':
            rows = []
            for i in range(self.d):
                row = []
                for k in range(self.m):
                    tot = None
                    for a in range(self.degt + 1):
                        c = self.gb[i][k][a]
                        term = c * tp[a] if a else c
                        tot = term if tot is None else tot + term
                    row.append(tot + 0 * like)
                rows.append(torch.stack(row, dim=1))
            return torch.stack(rows, dim=1)
        rows = []
        for i in range(self.d):
            rows.append(torch.stack([self._poly(self.gb[i][k], tp, ym, like) for k in range(self.m)], dim=1))
        return torch.stack(rows, dim=1)


class StubBM:
    """Brownian motion stub: returns prescribed symbolic (dW, U, A) for every query (one-step analyses)"""

    def __init__(self, mk, batch, m, levy='none', h=0.01, suffix=''):
        self.levy_area_approximation = levy
        self.shape = (batch, m)
        self.dtype = torch.float64
        self.device = torch.device('cpu')
        s = h ** 0.5
        self.W = mk('dW' + suffix, (batch, m), values=(0.37 * s * (1 + 0.3 * np.arange(batch * m))).reshape(batch, m))
        self.U = mk('U' + suffix, (batch, m), values=(0.21 * h * s * (1 + 0.2 * np.arange(batch * m))).reshape(batch, m))
        self.A = None
        if levy in ('davie', 'foster'):
            vals = np.zeros((batch, m, m))
            names = np.empty((batch, m, m), dtype=object)
            A = mk('Ax' + suffix, (batch, m, m), values=0.05 * h * np.ones((batch, m, m)))
            # antisymmetrise: A_jk = Ax_jk - Ax_kj  (free symbols for j<k)
            self.A = A - A.transpose(-1, -2)
        self.calls = []

    def __call__(self, ta, tb=None, return_U=False, return_A=False):
        self.calls.append((ta, tb))
        out = [self.W]
        if return_U:
            out.append(self.U)
        if return_A:
            out.append(self.A)
        return out[0] if len(out) == 1 else tuple(out)


class KeyedBM:
    """deterministic Brownian stub keyed by the queried interval: the same (ta, tb) returns the same symbols"""

    def __init__(self, mk, batch, m, levy='none'):
        self.levy_area_approximation = levy
        self.shape = (batch, m)
        self.dtype = torch.float64
        self.device = torch.device('cpu')
        self.mk = mk
        self.cache = {}
        self.calls = []

    def __call__(self, ta, tb=None, return_U=False, return_A=False):
        key = (round(float(ta), 9), round(float(tb), 9))
        self.calls.append(key)
        if key not in self.cache:
            tag = f"_{key[0]:g}_{key[1]:g}".replace('-', 'm').replace('.', 'p')
            h = abs(key[1] - key[0]) or 1.0
            B, m = self.shape
            import math
            W = self.mk('W' + tag, (B, m), values=[[0.3 * math.sqrt(h) * math.sin(37 * key[0] + 11 * key[1] + 3 * b + 5 * j + 1)
                                                    for j in range(m)] for b in range(B)])
            U = self.mk('U' + tag, (B, m), values=[[0.1 * h ** 1.5 * math.cos(17 * key[0] + 7 * key[1] + 2 * b + 3 * j)
                                                    for j in range(m)] for b in range(B)])
            A = None
            if self.levy_area_approximation in ('davie', 'foster'):
                Ax = self.mk('Ax' + tag, (B, m, m), values=0.02 * h * np.ones((B, m, m)))
                A = Ax - Ax.transpose(-1, -2)
            self.cache[key] = (W, U, A)
        W, U, A = self.cache[key]
        out = [W]
        if return_U:
            out.append(U)
        if return_A:
            out.append(A)
        return out[0] if len(out) == 1 else tuple(out)


def levy_for(method):
    return {'srk': 'space-time', 'log_ode': 'davie'}.get(method, 'none')


# (sde_type, method) -> noise types the solver class accepts (read from the real classes at run time by the checks)
FORWARD_METHODS = {
    'ito': ['euler', 'milstein', 'srk'],
    'stratonovich': ['euler_heun', 'heun', 'midpoint', 'milstein', 'reversible_heun', 'log_ode'],
}


# ---------------------------------------------------------------- SDE with UNINTERPRETED drift / diffusion
import math as _math
from .dag import Node as _Node, lift as _lift, UF_IMPL as _UF_IMPL


def scalar_node(t):
    """dag node of a scalar time argument (SymT 0-d, plain tensor, python number)"""
    if isinstance(t, SymT):
        return t.sym.reshape(-1)[0]
    return _lift(float(t))


def _impl(k):
    return lambda *xs: _math.sin(0.7 * k + sum((0.3 + 0.11 * i) * x for i, x in enumerate(xs))) * 0.5 + 0.1 * k


class UFSDE(torch.nn.Module):
    """f_i = F_i(t, y_1..y_d), g_ij = G_ij(t, y_1..y_d) with F, G uninterpreted function symbols (row-wise in the batch).
    diagonal: g_i = G_i(t, y_i);  additive: G_ij(t)."""

    def __init__(self, sde_type, noise_type, d, m, tag=''):
        super().__init__()
        self.sde_type, self.noise_type, self.d, self.m, self.tag = sde_type, noise_type, d, m, tag

    def _apply(self, name, k, t, ycols_sym, ycols_val, tval):
        _UF_IMPL.setdefault(name, _impl(k))
        val = _UF_IMPL[name](tval, *ycols_val)
        return val, _Node('uf', name, scalar_node(t), *ycols_sym)

    def _eval(self, t, y, names_for):
        B, d = y.shape
        tval = float(t.elem) if isinstance(t, SymT) else float(t)
        ysym = y.sym if isinstance(y, SymT) else None
        yval = (y.elem if isinstance(y, SymT) else y).detach()
        return B, d, tval, ysym, yval

    def f(self, t, y):
        B, d, tval, ysym, yval = self._eval(t, y, None)
        vals = np.zeros((B, d)); syms = np.empty((B, d), dtype=object)
        for b in range(B):
            for i in range(d):
                vals[b, i], syms[b, i] = self._apply(f'F{self.tag}{i}', i + 1, t, list(ysym[b]), yval[b].tolist(), tval)
        return SymT(torch.tensor(vals, dtype=torch.float64), syms)

    def g(self, t, y):
        B, d, tval, ysym, yval = self._eval(t, y, None)
        nt, m = self.noise_type, self.m
        if nt == 'diagonal':
            vals = np.zeros((B, d)); syms = np.empty((B, d), dtype=object)
            for b in range(B):
                for i in range(d):
                    vals[b, i], syms[b, i] = self._apply(f'G{self.tag}{i}', 10 + i, t, [ysym[b, i]], [float(yval[b, i])], tval)
            return SymT(torch.tensor(vals, dtype=torch.float64), syms)
        m = 1 if nt == 'scalar' else m
        vals = np.zeros((B, d, m)); syms = np.empty((B, d, m), dtype=object)
        for b in range(B):
            for i in range(d):
                for j in range(m):
                    if nt == 'additive':
                        vals[b, i, j], syms[b, i, j] = self._apply(f'G{self.tag}{i}_{j}', 10 + 3 * i + j, t, [], [], tval)
                    else:
                        vals[b, i, j], syms[b, i, j] = self._apply(f'G{self.tag}{i}_{j}', 10 + 3 * i + j, t, list(ysym[b]), yval[b].tolist(), tval)
        return SymT(torch.tensor(vals, dtype=torch.float64), syms)


class MinusSDE(torch.nn.Module):
    """time-reversed, negated SDE (as tests/test_sdeint.py::test_reversibility builds it)"""

    def __init__(self, sde):
        super().__init__()
        self.sde_type, self.noise_type = sde.sde_type, sde.noise_type
        self.base = sde

    def f_and_g(self, t, y):
        return -self.base.f(-t, y), -self.base.g(-t, y)
