"""Harness pieces for the stepping loop (C12, C14, C13, C01): the REAL BaseSDESolver.integrate driven with concolic times,
an abstract `step` that returns fresh symbolic states and records its arguments."""
from fractions import Fraction

import numpy as np
import torch

from . import symx
from .dag import var
from .symtorch import SymT


def fresh_state(name, shape=(1, 1), value=0.5):
    a = np.empty(shape, dtype=object)
    for idx in np.ndindex(*shape):
        a[idx] = var(name + ''.join(f'_{i}' for i in idx))
    return SymT(torch.full(shape, float(value), dtype=torch.float64), a)


def make_stub_solver(dt, adaptive, dt_min, rtol=0.0, atol=0.0, keyed=False):
    from torchsde._core import base_solver

    class StubSolver(base_solver.BaseSDESolver):
        strong_order = 1.0
        weak_order = 1.0
        sde_type = 'ito'
        noise_types = ('diagonal',)
        levy_area_approximations = ('none',)

        def __init__(self):
            self.dt = dt
            self.adaptive = adaptive
            self.dt_min = dt_min
            self.rtol = rtol
            self.atol = atol
            self.log = []

        def step(self, t0, t1, y0, extra0):
            k = len(self.log)
            y1 = fresh_state(f"Y{k}", value=0.1 * (k + 1))
            e1 = fresh_state(f"X{k}", value=-0.1 * (k + 1))
            ex = (e1,)
            self.log.append(dict(t0=t0, t1=t1, y0=y0, extra0=extra0, y1=y1, extra1=ex))
            return y1, ex
    return StubSolver()
