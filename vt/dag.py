"""Hash-consed expression DAG + interpreters (float, z3, derivative, support, polynomial normal form).

Nodes are what the symbolic tensor payloads (symtorch.SymT) are made of.  Constants are stored as the EXACT binary
value of the float the real code used (Fraction); the "algebraic reading" of a constant (0.1 -> 1/10, 1/6, ...) is applied
only by the interpreters that need it (to_z3 / to_poly / to_series) and every constant it fires on is recorded.
add / mul are canonicalised by operand id (IEEE add and mul are commutative, so this keeps bit-identity sound).
"""
import math
from fractions import Fraction

_TABLE = {}


class Node:
    __slots__ = ('op', 'args', 'nid')

    def __new__(cls, op, *args):
        if op in ('add', 'mul') and isinstance(args[0], Node) and isinstance(args[1], Node) and args[0].nid > args[1].nid:
            args = (args[1], args[0])
        key = (op, args)
        n = _TABLE.get(key)
        if n is None:
            n = object.__new__(cls)
            n.op = op
            n.args = args
            n.nid = len(_TABLE)
            _TABLE[key] = n
        return n

    def __hash__(self):
        return self.nid

    def __eq__(self, o):
        return self is o

    def __ne__(self, o):
        return self is not o

    def __repr__(self):
        return show(self, 6)

    def __add__(a, b): return Node('add', a, lift(b))
    def __radd__(a, b): return Node('add', lift(b), a)
    def __sub__(a, b): return Node('sub', a, lift(b))
    def __rsub__(a, b): return Node('sub', lift(b), a)
    def __mul__(a, b): return Node('mul', a, lift(b))
    def __rmul__(a, b): return Node('mul', lift(b), a)
    def __truediv__(a, b): return Node('div', a, lift(b))
    def __rtruediv__(a, b): return Node('div', lift(b), a)
    def __neg__(a): return Node('neg', a)


def show(n, depth=6):
    if n.op == 'var':
        return n.args[0]
    if n.op == 'const':
        f = n.args[0]
        return str(f) if f.denominator < 10 ** 6 else repr(float(f))
    if depth <= 0:
        return '...'
    return f"{n.op}({', '.join(show(a, depth - 1) if isinstance(a, Node) else repr(a) for a in n.args)})"


def lift(x):
    if isinstance(x, Node):
        return x
    if isinstance(x, bool):
        return Node('const', Fraction(int(x)))
    if isinstance(x, (int, Fraction)):
        return Node('const', Fraction(x))
    x = float(x)
    if math.isnan(x) or math.isinf(x):
        raise ValueError(f"non-finite constant {x}")
    return Node('const', Fraction(x))


def var(name):
    return Node('var', name)


ZERO = lift(0)
ONE = lift(1)

UF_IMPL = {}      # name -> python callable giving the concrete value of an uninterpreted function (for validation)
CONSTS_READ = {}   # exact Fraction -> algebraic reading used (recorded for evidence)


def algebraic(fr):
    """The algebraic number a float constant stands for: a fraction with denominator <= 10^4 within 1 ulp, else itself."""
    if fr.denominator == 1:
        return fr
    got = CONSTS_READ.get(fr)
    if got is not None:
        return got
    x = float(fr)
    cand = fr.limit_denominator(10000)
    if cand != fr and cand != 0 and abs(float(cand) - x) <= abs(x) * 2.0 ** -52:
        CONSTS_READ[fr] = cand
        return cand
    if cand == fr:
        return fr
    CONSTS_READ[fr] = fr
    return fr


SQRT_READ = {}


def algebraic_sqrt(fr):
    """(sign, q) if the float constant is within 1 ulp of +-sqrt(q), q a fraction with denominator <= 10^4 that is not a
    perfect square (e.g. 1/math.sqrt(3)); else None"""
    got = SQRT_READ.get(fr)
    if got is not None:
        return got or None
    out = False
    if fr.denominator != 1 and algebraic(fr) == fr and fr.limit_denominator(10000) != fr:
        x = float(fr)
        q = Fraction(x * x).limit_denominator(10000)
        if q > 0 and abs(math.sqrt(float(q)) - abs(x)) <= abs(x) * 2.0 ** -51:
            out = (1 if x > 0 else -1, q)
    SQRT_READ[fr] = out
    return out or None


def size(n):
    seen = set()
    st = [n]
    while st:
        x = st.pop()
        if x in seen:
            continue
        seen.add(x)
        st.extend(a for a in x.args if isinstance(a, Node))
    return len(seen)


def topo(roots):
    """nodes reachable from roots in dependency order (iterative; DAGs can be deep)."""
    order = []
    seen = set()
    for r in roots:
        if r in seen:
            continue
        st = [(r, False)]
        while st:
            x, done = st.pop()
            if done:
                order.append(x)
                continue
            if x in seen:
                continue
            seen.add(x)
            st.append((x, True))
            for a in x.args:
                if isinstance(a, Node) and a not in seen:
                    st.append((a, False))
    return order


# ---------------------------------------------------------------- float
def to_float(n, env, memo=None):
    memo = {} if memo is None else memo
    for x in topo([n]):
        if x in memo:
            continue
        op = x.op
        a = x.args
        if op == 'var': r = float(env[a[0]])
        elif op == 'const': r = float(a[0])
        elif op == 'add': r = memo[a[0]] + memo[a[1]]
        elif op == 'sub': r = memo[a[0]] - memo[a[1]]
        elif op == 'mul': r = memo[a[0]] * memo[a[1]]
        elif op == 'div': r = memo[a[0]] / memo[a[1]]
        elif op == 'neg': r = -memo[a[0]]
        elif op == 'pow': r = memo[a[0]] ** a[1]
        elif op == 'sqrt': r = math.sqrt(memo[a[0]])
        elif op == 'abs': r = abs(memo[a[0]])
        elif op == 'sign':
            v = memo[a[0]]; r = (v > 0) - (v < 0)
        elif op == 'max': r = max(memo[a[0]], memo[a[1]])
        elif op == 'min': r = min(memo[a[0]], memo[a[1]])
        elif op == 'gt': r = memo[a[0]] > memo[a[1]]
        elif op == 'ge': r = memo[a[0]] >= memo[a[1]]
        elif op == 'eq': r = memo[a[0]] == memo[a[1]]
        elif op == 'not': r = not memo[a[0]]
        elif op == 'and': r = bool(memo[a[0]]) and bool(memo[a[1]])
        elif op == 'or': r = bool(memo[a[0]]) or bool(memo[a[1]])
        elif op == 'true': r = True
        elif op == 'imod': r = int(memo[a[0]]) % a[1]
        elif op == 'uf': r = UF_IMPL[a[0]](*[memo[q] for q in a[1:]])
        elif op == 'even': r = int(memo[a[0]]) % 2 == 0
        elif op == 'ite': r = memo[a[1]] if memo[a[0]] else memo[a[2]]
        else: raise NotImplementedError(op)
        memo[x] = r
    return memo[n]


def eval_exact(n, env, memo=None):
    """exact rational value at a rational point, with the same algebraic reading of float constants as to_z3 / to_poly.
    Raises NotImplementedError where the value is not rational (square roots of non-squares, uninterpreted functions)."""
    memo = {} if memo is None else memo
    for x in topo([n]):
        if x in memo:
            continue
        op = x.op
        a = x.args
        if op == 'var': r = Fraction(env[a[0]])
        elif op == 'const':
            if algebraic_sqrt(a[0]) is not None:
                raise NotImplementedError('irrational constant')
            r = algebraic(a[0])
        elif op == 'add': r = memo[a[0]] + memo[a[1]]
        elif op == 'sub': r = memo[a[0]] - memo[a[1]]
        elif op == 'mul': r = memo[a[0]] * memo[a[1]]
        elif op == 'div': r = memo[a[0]] / memo[a[1]]
        elif op == 'neg': r = -memo[a[0]]
        elif op == 'pow':
            if not isinstance(a[1], int): raise NotImplementedError('non-integer power')
            r = memo[a[0]] ** a[1]
        elif op == 'sqrt':
            v = memo[a[0]]
            if v < 0: raise NotImplementedError('sqrt of negative')
            pn, pd = math.isqrt(v.numerator), math.isqrt(v.denominator)
            if pn * pn != v.numerator or pd * pd != v.denominator: raise NotImplementedError('irrational sqrt')
            r = Fraction(pn, pd)
        elif op == 'abs': r = abs(memo[a[0]])
        elif op == 'sign':
            v = memo[a[0]]; r = Fraction((v > 0) - (v < 0))
        elif op == 'max': r = max(memo[a[0]], memo[a[1]])
        elif op == 'min': r = min(memo[a[0]], memo[a[1]])
        elif op == 'gt': r = memo[a[0]] > memo[a[1]]
        elif op == 'ge': r = memo[a[0]] >= memo[a[1]]
        elif op == 'eq': r = memo[a[0]] == memo[a[1]]
        elif op == 'not': r = not memo[a[0]]
        elif op == 'and': r = bool(memo[a[0]]) and bool(memo[a[1]])
        elif op == 'or': r = bool(memo[a[0]]) or bool(memo[a[1]])
        elif op == 'true': r = True
        elif op == 'ite': r = memo[a[1]] if memo[a[0]] else memo[a[2]]
        else: raise NotImplementedError(op)
        memo[x] = r
    return memo[n]


def generic_point(names, salt=0):
    """a deterministic generic rational point in (0, 1]^n (distinct small fractions per name)"""
    import zlib
    return {u: Fraction(1 + (zlib.crc32(f'{salt}:{u}'.encode()) % 96), 97) for u in names}


# ---------------------------------------------------------------- z3
def to_z3(n, zenv, memo, side, exact_consts=False):
    """exact Real term.  side collects tagged side constraints: ('sqrt', definition) / ('den', denominator != 0)."""
    import z3
    sidemap = memo.setdefault('__side__', {})
    order = topo([n])
    for x in order:
        if x in memo:
            continue
        op = x.op
        a = x.args
        if op == 'var': r = zenv(a[0])
        elif op == 'const':
            sq = None if exact_consts else algebraic_sqrt(a[0])
            if sq is not None:
                sign, q = sq
                root = z3.Real(f"csqrt!{q.numerator}_{q.denominator}")
                sidemap[x] = ('csqrt', z3.And(root * root == z3.RealVal(f"{q.numerator}/{q.denominator}"), root > 0))
                r = root if sign > 0 else -root
            else:
                f = a[0] if exact_consts else algebraic(a[0])
                r = z3.RealVal(f"{f.numerator}/{f.denominator}")
        elif op == 'add': r = memo[a[0]] + memo[a[1]]
        elif op == 'sub': r = memo[a[0]] - memo[a[1]]
        elif op == 'mul': r = memo[a[0]] * memo[a[1]]
        elif op == 'div':
            d = memo[a[1]]
            sidemap[x] = ('den', d != 0)
            r = memo[a[0]] / d
        elif op == 'neg': r = -memo[a[0]]
        elif op == 'pow':
            b = memo[a[0]]; e = a[1]
            r = z3.RealVal(1)
            if e >= 0:
                for _ in range(e): r = r * b
            else:
                sidemap[x] = ('den', b != 0)
                for _ in range(-e): r = r / b
        elif op == 'sqrt':
            r = z3.Real(f"sqrt!{x.nid}")
            sidemap[x] = ('sqrt', z3.And(r * r == memo[a[0]], r >= 0))
        elif op == 'abs':
            v = memo[a[0]]; r = z3.If(v >= 0, v, -v)
        elif op == 'sign':
            v = memo[a[0]]; r = z3.If(v > 0, z3.RealVal(1), z3.If(v < 0, z3.RealVal(-1), z3.RealVal(0)))
        elif op == 'max':
            p, q = memo[a[0]], memo[a[1]]; r = z3.If(p >= q, p, q)
        elif op == 'min':
            p, q = memo[a[0]], memo[a[1]]; r = z3.If(p <= q, p, q)
        elif op == 'gt': r = memo[a[0]] > memo[a[1]]
        elif op == 'ge': r = memo[a[0]] >= memo[a[1]]
        elif op == 'eq': r = memo[a[0]] == memo[a[1]]
        elif op == 'not': r = z3.Not(memo[a[0]])
        elif op == 'and': r = z3.And(memo[a[0]], memo[a[1]])
        elif op == 'or': r = z3.Or(memo[a[0]], memo[a[1]])
        elif op == 'true': r = z3.BoolVal(True)
        elif op == 'imod': r = z3.ToReal(z3.ToInt(memo[a[0]]) % a[1]) if not z3.is_int(memo[a[0]]) else memo[a[0]] % a[1]
        elif op == 'even': r = memo[a[0]] % 2 == 0
        elif op == 'ite': r = z3.If(memo[a[0]], memo[a[1]], memo[a[2]])
        elif op == 'uf':
            # uninterpreted function application: args = (name, arg nodes...)
            f = z3.Function(a[0], *([z3.RealSort()] * (len(a) - 1)), z3.RealSort())
            r = f(*[memo[q] for q in a[1:]])
        else: raise NotImplementedError(op)
        memo[x] = r
    if sidemap:
        for x in order:
            sc = sidemap.get(x)
            if sc is not None:
                side.append(sc)
    return memo[n]


# ---------------------------------------------------------------- support / derivative
def support(n, memo=None):
    memo = {} if memo is None else memo
    for x in topo([n]):
        if x in memo:
            continue
        if x.op == 'var':
            memo[x] = frozenset([x.args[0]])
        else:
            s = frozenset()
            for a in x.args:
                if isinstance(a, Node):
                    s = s | memo[a]
            memo[x] = s
    return memo[n]


def diff(n, v, memo=None):
    """symbolic derivative d n / d var(v) as a DAG node (with light zero/one simplification)."""
    memo = {} if memo is None else memo
    sup = {}
    for x in topo([n]):
        if x in memo:
            continue
        if v not in support(x, sup):
            memo[x] = ZERO
            continue
        op = x.op
        a = x.args
        if op == 'var': r = ONE
        elif op == 'add': r = _add(memo[a[0]], memo[a[1]])
        elif op == 'sub': r = _sub(memo[a[0]], memo[a[1]])
        elif op == 'mul': r = _add(_mul(memo[a[0]], a[1]), _mul(a[0], memo[a[1]]))
        elif op == 'div':
            # (p/q)' = p'/q - p q'/q^2
            r = _sub(_div(memo[a[0]], a[1]), _div(_mul(a[0], memo[a[1]]), _mul(a[1], a[1])))
        elif op == 'neg': r = _neg(memo[a[0]])
        elif op == 'pow':
            e = a[1]
            r = ZERO if e == 0 else _mul(_mul(lift(e), Node('pow', a[0], e - 1) if e != 1 else ONE), memo[a[0]])
        elif op == 'sqrt': r = _div(memo[a[0]], _mul(lift(2), x))
        elif op == 'abs': r = _mul(Node('sign', a[0]), memo[a[0]])
        elif op == 'sign': r = ZERO
        elif op == 'max': r = Node('ite', Node('ge', a[0], a[1]), memo[a[0]], memo[a[1]])
        elif op == 'min': r = Node('ite', Node('ge', a[1], a[0]), memo[a[0]], memo[a[1]])
        elif op == 'ite': r = Node('ite', a[0], memo[a[1]], memo[a[2]])
        else: raise NotImplementedError(op)
        memo[x] = r
    return memo[n]


def _add(a, b):
    if a is ZERO: return b
    if b is ZERO: return a
    return Node('add', a, b)


def _sub(a, b):
    if b is ZERO: return a
    if a is ZERO: return _neg(b)
    return Node('sub', a, b)


def _neg(a):
    if a is ZERO: return ZERO
    return Node('neg', a)


def _mul(a, b):
    if a is ZERO or b is ZERO: return ZERO
    if a is ONE: return b
    if b is ONE: return a
    return Node('mul', a, b)


def _div(a, b):
    if a is ZERO: return ZERO
    return Node('div', a, b)


# ---------------------------------------------------------------- polynomial normal form (Fraction coefficients)
class Poly(dict):
    """{monomial: Fraction}; monomial = tuple(sorted((var, exp)))"""

    @staticmethod
    def const(c):
        c = Fraction(c)
        return Poly({(): c}) if c else Poly()

    @staticmethod
    def var(v):
        return Poly({((v, 1),): Fraction(1)})

    def __add__(a, b):
        r = Poly(a)
        for m, c in b.items():
            v = r.get(m, 0) + c
            if v: r[m] = v
            else: r.pop(m, None)
        return r

    def __neg__(a):
        return Poly({m: -c for m, c in a.items()})

    def __sub__(a, b):
        return a + (-b)

    def __mul__(a, b):
        if len(a) > len(b):
            a, b = b, a
        r = {}
        for m1, c1 in a.items():
            if not m1:
                for m2, c2 in b.items():
                    v = r.get(m2, 0) + c1 * c2
                    if v: r[m2] = v
                    else: r.pop(m2, None)
                continue
            d1 = dict(m1)
            for m2, c2 in b.items():
                if m2:
                    d = dict(d1)
                    for v_, e in m2: d[v_] = d.get(v_, 0) + e
                    m = tuple(sorted(d.items()))
                else:
                    m = m1
                v = r.get(m, 0) + c1 * c2
                if v: r[m] = v
                else: r.pop(m, None)
        return Poly(r)

    def scale(a, c):
        return Poly({m: k * c for m, k in a.items()}) if c else Poly()

    def as_const(a):
        if not a: return Fraction(0)
        if len(a) == 1 and () in a: return a[()]
        return None

    def to_z3(a, zenv):
        import z3
        tot = z3.RealVal(0)
        for m, c in a.items():
            t = z3.RealVal(f"{c.numerator}/{c.denominator}")
            for v, e in m:
                zv = zenv(v)
                for _ in range(e): t = t * zv
            tot = tot + t
        return tot

    def eval(a, env):
        tot = 0.0
        for m, c in a.items():
            t = float(c)
            for v, e in m: t *= float(env[v]) ** e
            tot += t
        return tot

    def diff(a, v):
        r = {}
        for m, c in a.items():
            d = dict(m)
            if v in d:
                e = d[v]; c2 = c * e
                if e == 1: del d[v]
                else: d[v] = e - 1
                mm = tuple(sorted(d.items()))
                r[mm] = r.get(mm, 0) + c2
        return Poly({m: c for m, c in r.items() if c})

    def vars(a):
        return {v for m in a for v, _ in m}

    def show(a, limit=4):
        items = list(a.items())[:limit]
        s = ' + '.join(f"{c}*" + '*'.join(f"{v}^{e}" if e != 1 else v for v, e in m) if m else str(c) for m, c in items)
        return s + (f" + ...({len(a)} terms)" if len(a) > limit else '')


def _lead(p):
    """leading monomial w.r.t. a fixed total order (lexicographic on the sorted (var, exp) tuples)"""
    return max(p.keys())


def poly_divide_exact(a, b, max_steps=4000):
    """q with a == q*b, or None if b does not divide a exactly (or the attempt exceeds max_steps)"""
    if not b:
        return None
    if not a:
        return Poly()
    c = b.as_const()
    if c is not None:
        return a.scale(1 / c)
    # graded-lex style division using a monomial order compatible with multiplication: compare exponent vectors
    vars_ = sorted(a.vars() | b.vars())
    idx = {v: i for i, v in enumerate(vars_)}

    def key(m):
        e = [0] * len(vars_)
        for v, k in m:
            e[idx[v]] = k
        return (sum(e), e)
    lb = max(b.keys(), key=key)
    cb = b[lb]
    dlb = dict(lb)
    q = Poly()
    r = Poly(a)
    steps = 0
    while r:
        steps += 1
        if steps > max_steps:
            return None
        lr = max(r.keys(), key=key)
        d = dict(lr)
        ok = True
        for v, k in dlb.items():
            if d.get(v, 0) < k:
                ok = False
                break
            d[v] -= k
            if d[v] == 0:
                del d[v]
        if not ok:
            return None
        m = tuple(sorted(d.items()))
        coef = r[lr] / cb
        t = Poly({m: coef})
        q = q + t
        r = r - t * b
    return q


def to_poly(n, memo=None):
    """normal form of a polynomial DAG (no div by non-constants, no sqrt)."""
    memo = {} if memo is None else memo
    for x in topo([n]):
        if x in memo:
            continue
        op = x.op
        a = x.args
        if op == 'var': r = Poly.var(a[0])
        elif op == 'const': r = Poly.const(algebraic(a[0]))
        elif op == 'add': r = memo[a[0]] + memo[a[1]]
        elif op == 'sub': r = memo[a[0]] - memo[a[1]]
        elif op == 'mul': r = memo[a[0]] * memo[a[1]]
        elif op == 'neg': r = -memo[a[0]]
        elif op == 'div':
            c = memo[a[1]].as_const()
            if c is None or c == 0: raise NotImplementedError('poly: division by non-constant')
            r = memo[a[0]].scale(1 / c)
        elif op == 'pow':
            e = a[1]
            if e < 0: raise NotImplementedError('poly: negative power')
            r = Poly.const(1)
            for _ in range(e): r = r * memo[a[0]]
        else: raise NotImplementedError(f'poly: {op}')
        memo[x] = r
    return memo[n]


# ---------------------------------------------------------------- substitution / linear forms
def substitute(n, mapping, memo=None):
    """replace var names by nodes"""
    memo = {} if memo is None else memo
    for x in topo([n]):
        if x in memo:
            continue
        if x.op == 'var':
            memo[x] = mapping.get(x.args[0], x)
        elif x.op == 'const':
            memo[x] = x
        else:
            memo[x] = Node(x.op, *[memo[a] if isinstance(a, Node) else a for a in x.args])
    return memo[n]


def linear_form(n, basis, memo_sup=None):
    """n as a linear form over the variable names in `basis`: returns ({name: coeff node}, const node) where the
    coefficient nodes do not mention basis variables.  Raises ValueError if n is not (syntactically) linear in them.
    Works structurally (no normalisation): add/sub/neg/mul-by-basis-free/div-by-basis-free."""
    sup = {} if memo_sup is None else memo_sup
    basis = frozenset(basis)
    memo = {}
    for x in topo([n]):
        s = support(x, sup)
        if not (s & basis):
            memo[x] = ({}, x)
            continue
        op = x.op
        a = x.args
        if op == 'var':
            memo[x] = ({a[0]: ONE}, ZERO)
        elif op in ('add', 'sub'):
            (la, ca), (lb, cb) = memo[a[0]], memo[a[1]]
            f = _add if op == 'add' else _sub
            out = dict(la)
            for k, v in lb.items():
                out[k] = f(out.get(k, ZERO), v)
            memo[x] = (out, f(ca, cb))
        elif op == 'neg':
            la, ca = memo[a[0]]
            memo[x] = ({k: _neg(v) for k, v in la.items()}, _neg(ca))
        elif op == 'mul':
            (la, ca), (lb, cb) = memo[a[0]], memo[a[1]]
            if la and lb:
                raise ValueError('not linear: product of two basis-dependent terms')
            if lb:
                la, ca, lb, cb = lb, cb, la, ca
            memo[x] = ({k: _mul(v, cb) for k, v in la.items()}, _mul(ca, cb))
        elif op == 'div':
            (la, ca), (lb, cb) = memo[a[0]], memo[a[1]]
            if lb:
                raise ValueError('not linear: division by a basis-dependent term')
            memo[x] = ({k: _div(v, cb) for k, v in la.items()}, _div(ca, cb))
        elif op == 'pow' and a[1] == 1:
            memo[x] = memo[a[0]]
        else:
            raise ValueError(f'not linear: {op}')
    return memo[n]


# ---------------------------------------------------------------- normal form over square-root generators
SQRT_GEN = {}
_GEN_BY_KEY = {}
_GEN_RF_MEMO = {}


def sqrt_normal(n):
    """n as a polynomial in its square-root sub-terms with each generator at power <= 1 (r*r is replaced by the radicand):
    {tuple(sorted generator ids): coefficient node}.  Raises NotImplementedError when a denominator is not a monomial."""
    memo = {}

    def mul_terms(A, Bt):
        out = {}
        for ma, ca in A.items():
            for mb, cb in Bt.items():
                sa, sb = set(ma), set(mb)
                c = _mul(ca, cb)
                for g in sa & sb:
                    c = _mul(c, SQRT_GEN[g].args[0])
                m = tuple(sorted(sa ^ sb))
                out[m] = _add(out[m], c) if m in out else c
        return out

    for x in topo([n]):
        op = x.op
        a = x.args
        if op == 'sqrt':
            g = x
            if not support(a[0]):
                # ground radicand: evaluate exactly and canonicalise (equal values -> the same generator; perfect squares -> rational)
                try:
                    num, D = to_ratfun(a[0])
                    val = num.as_const()
                    den = ratfun_den_poly(D).as_const()
                    if val is not None and den:
                        val = val / den
                        if val >= 0:
                            rn, rd = math.isqrt(val.numerator), math.isqrt(val.denominator)
                            if rn * rn == val.numerator and rd * rd == val.denominator:
                                memo[x] = {(): lift(Fraction(rn, rd))} if rn else {}
                                continue
                            g = Node('sqrt', lift(val))
                except NotImplementedError:
                    pass
            if g is x:
                # radicands that are equal as rational functions are the same generator (e.g. H_i^2 + H_j^2 vs H_j^2 + H_i^2)
                try:
                    parts = []
                    for mono, cf in memo[a[0]].items():      # normal form of the radicand (already computed: topological order)
                        num, D = to_ratfun(cf, _GEN_RF_MEMO)
                        if num:
                            parts.append((mono, tuple(sorted(num.items())), tuple(sorted(D.items()))))
                    key = tuple(sorted(parts))
                    g = _GEN_BY_KEY.setdefault(key, x)
                except NotImplementedError:
                    pass
            SQRT_GEN[g.nid] = g
            r = {(g.nid,): ONE}
        elif op == 'const':
            sq = algebraic_sqrt(a[0])
            if sq is not None:
                g = Node('sqrt', lift(sq[1]))
                SQRT_GEN[g.nid] = g
                r = {(g.nid,): lift(sq[0])}
            else:
                r = {(): x}
        elif op in ('add', 'sub'):
            r = dict(memo[a[0]])
            for m, c in memo[a[1]].items():
                if op == 'add':
                    r[m] = _add(r[m], c) if m in r else c
                else:
                    r[m] = _sub(r[m], c) if m in r else _neg(c)
        elif op == 'neg':
            r = {m: _neg(c) for m, c in memo[a[0]].items()}
        elif op == 'mul':
            r = mul_terms(memo[a[0]], memo[a[1]])
        elif op == 'div':
            den = {m: c for m, c in memo[a[1]].items() if c is not ZERO}
            if len(den) != 1:
                raise NotImplementedError('sqrt_normal: non-monomial denominator')
            (m, c), = den.items()
            inv_c = c
            for g in m:
                inv_c = _mul(inv_c, SQRT_GEN[g].args[0])
            r = {k: _div(v, inv_c) for k, v in mul_terms(memo[a[0]], {m: ONE}).items()}
        elif op == 'pow':
            e = a[1]
            base = memo[a[0]]
            if e < 0:
                den = {m: c for m, c in base.items() if c is not ZERO}
                if len(den) != 1:
                    raise NotImplementedError('sqrt_normal: non-monomial denominator')
                (m, c), = den.items()
                inv_c = c
                for g in m:
                    inv_c = _mul(inv_c, SQRT_GEN[g].args[0])
                base = {m: _div(ONE, inv_c)}
                e = -e
            r = {(): ONE}
            for _ in range(e):
                r = mul_terms(r, base)
        else:
            r = {(): x}
        memo[x] = r
    return memo[n]


# ---------------------------------------------------------------- rational-function normal form
class TooLarge(NotImplementedError):
    pass


_FACTORS = {}     # key -> Poly (atomic denominator factors, kept unexpanded)


def _fkey(p):
    k = tuple(sorted(p.items()))
    _FACTORS.setdefault(k, p)
    return k


def _expand(factors):
    r = Poly.const(1)
    for k, mult in factors.items():
        for _ in range(mult):
            r = r * _FACTORS[k]
    return r


def to_ratfun(n, memo=None, max_terms=20000):
    """(num, den) as Poly with Fraction coefficients.  Denominators are tracked as multisets of atomic factors so that
    sums take least common multiples instead of products.  sqrt / abs / ite are not supported; TooLarge when a numerator
    exceeds max_terms monomials."""
    memo = {} if memo is None else memo
    one = Poly.const(1)

    def norm_const(num, den):
        return num, den

    for x in topo([n]):
        if x in memo:
            continue
        op = x.op
        a = x.args
        if op == 'var': r = (Poly.var(a[0]), {})
        elif op == 'const':
            if algebraic_sqrt(a[0]) is not None:
                raise NotImplementedError('ratfun: irrational constant')
            r = (Poly.const(algebraic(a[0])), {})
        elif op in ('add', 'sub'):
            (n1, d1), (n2, d2) = memo[a[0]], memo[a[1]]
            if d1 == d2:
                r = ((n1 + n2) if op == 'add' else (n1 - n2), d1)
            else:
                L = dict(d1)
                for k, m_ in d2.items():
                    if m_ > L.get(k, 0):
                        L[k] = m_
                c1 = _expand({k: m_ - d1.get(k, 0) for k, m_ in L.items() if m_ > d1.get(k, 0)})
                c2 = _expand({k: m_ - d2.get(k, 0) for k, m_ in L.items() if m_ > d2.get(k, 0)})
                r = ((n1 * c1 + n2 * c2) if op == 'add' else (n1 * c1 - n2 * c2), L)
        elif op == 'mul':
            (n1, d1), (n2, d2) = memo[a[0]], memo[a[1]]
            D = dict(d1)
            for k, m_ in d2.items():
                D[k] = D.get(k, 0) + m_
            r = (n1 * n2, D)
        elif op == 'div':
            (n1, d1), (n2, d2) = memo[a[0]], memo[a[1]]
            num = n1 * _expand(d2)
            D = dict(d1)
            c = n2.as_const()
            if c is not None:
                if c == 0:
                    raise ZeroDivisionError('ratfun: division by zero constant')
                num = num.scale(1 / c)
            else:
                k = _fkey(n2)
                D[k] = D.get(k, 0) + 1
            r = (num, D)
        elif op == 'neg':
            n1, d1 = memo[a[0]]
            r = (-n1, d1)
        elif op == 'pow':
            n1, d1 = memo[a[0]]
            e = a[1]
            if e < 0:
                num = _expand(d1)
                c = n1.as_const()
                D = {}
                if c is not None:
                    num = num.scale(1 / c)
                else:
                    D = {_fkey(n1): 1}
                n1, d1, e = num, D, -e
            rn, rd = one, {}
            for _ in range(e):
                rn = rn * n1
                for k, m_ in d1.items():
                    rd[k] = rd.get(k, 0) + m_
            r = (rn, rd)
        else:
            raise NotImplementedError(f'ratfun: {op}')
        if r[1] and op in ('add', 'sub', 'mul', 'div') and len(r[0]) <= 3000:
            num, D = r
            D = dict(D)
            for k in list(D):
                while D.get(k, 0) > 0:
                    qq = poly_divide_exact(num, _FACTORS[k]) if len(_FACTORS[k]) <= 400 else None
                    if qq is None:
                        break
                    num = qq
                    D[k] -= 1
                    if D[k] == 0:
                        del D[k]
            r = (num, D)
        if len(r[0]) > max_terms:
            raise TooLarge(f'ratfun numerator has {len(r[0])} monomials')
        memo[x] = r
    num, D = memo[n]
    return num, D


def ratfun_den_poly(D):
    return _expand(D)


# ---------------------------------------------------------------- IEEE-exact simplification (for bit-identity comparisons)
def ieee_simplify(n, memo=None):
    """rewrites that do not change the float result for FINITE operands (signed zeros compare equal):
    1*x -> x, x*1 -> x, 0*x -> 0, x+0 -> x, 0+x -> x, x-0 -> x, x/1 -> x.  Used only to compare float-operation DAGs."""
    memo = {} if memo is None else memo
    for x in topo([n]):
        if x in memo:
            continue
        if x.op in ('var', 'const'):
            memo[x] = x
            continue
        a = [memo[q] if isinstance(q, Node) else q for q in x.args]
        op = x.op
        r = None
        if op == 'mul':
            if a[0] is ONE: r = a[1]
            elif a[1] is ONE: r = a[0]
            elif a[0] is ZERO or a[1] is ZERO: r = ZERO
        elif op == 'add':
            if a[0] is ZERO: r = a[1]
            elif a[1] is ZERO: r = a[0]
        elif op == 'sub':
            if a[1] is ZERO: r = a[0]
        elif op == 'div':
            if a[1] is ONE: r = a[0]
        elif op == 'neg':
            if a[0] is ZERO: r = ZERO
        memo[x] = r if r is not None else Node(op, *a)
    return memo[n]


def ieee_exact_at(n, same, memo=None):
    """`n` rewritten under the hypothesis that the nodes in each pair of `same` hold the SAME float (pairs (old, new): old is
    replaced by new), using only rewrites that are exact in IEEE arithmetic for finite operands:
    those of ieee_simplify plus x - x -> 0, 0 / x -> 0 and x / x -> 1 (x finite, non-zero).
    NOT included on purpose: x * (1/x) -> 1, (a*b)/b -> a, re-association - these round."""
    memo = {} if memo is None else memo
    rep = {id(o): nw for o, nw in same}
    for x in topo([n]):
        if x in memo:
            continue
        if id(x) in rep:
            memo[x] = rep[id(x)]
            continue
        if x.op in ('var', 'const'):
            memo[x] = x
            continue
        a = [memo[q] if isinstance(q, Node) else q for q in x.args]
        op = x.op
        r = None
        if op == 'mul':
            if a[0] is ONE: r = a[1]
            elif a[1] is ONE: r = a[0]
            elif a[0] is ZERO or a[1] is ZERO: r = ZERO
        elif op == 'add':
            if a[0] is ZERO: r = a[1]
            elif a[1] is ZERO: r = a[0]
        elif op == 'sub':
            if a[1] is ZERO: r = a[0]
            elif a[0] is a[1]: r = ZERO
        elif op == 'div':
            if a[1] is ONE: r = a[0]
            elif a[0] is ZERO: r = ZERO
            elif a[0] is a[1]: r = ONE
        elif op == 'neg':
            if a[0] is ZERO: r = ZERO
        memo[x] = r if r is not None else Node(op, *a)
    return memo[n]


def take_ite_true(n, conds=None, memo=None, pairs=None):
    """rewrite every ite(c, x, y) to x, collecting the conditions c (to be asserted as assumptions) and, in `pairs`, each
    condition together with the value selected when it holds"""
    memo = {} if memo is None else memo
    conds = [] if conds is None else conds
    for x in topo([n]):
        if x in memo:
            continue
        if x.op in ('var', 'const'):
            memo[x] = x
        elif x.op == 'ite':
            c = memo[x.args[0]]
            if c not in conds:
                conds.append(c)
                if pairs is not None:
                    pairs.append((c, memo[x.args[1]]))
            memo[x] = memo[x.args[1]]
        else:
            memo[x] = Node(x.op, *[memo[a] if isinstance(a, Node) else a for a in x.args])
    return memo[n], conds
