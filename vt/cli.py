"""python -m vt.cli <property-id> <quick|thorough>   |   python -m vt.cli <property-id> --replay <path>"""
import importlib
import json
import os
import sys
import traceback
import warnings


def main(argv):
    if len(argv) < 2:
        print(__doc__)
        return 2
    pid = argv[0].upper()
    warnings.simplefilter('ignore')
    import faulthandler, signal
    faulthandler.register(signal.SIGUSR1, all_threads=True)      # kill -USR1 <pid> dumps the Python stacks
    mod = importlib.import_module(f"vt.props.{pid.lower()}")
    if argv[1] == '--replay':
        with open(argv[2]) as f:
            data = json.load(f)
        ok = mod.replay(data)
        print('REPRODUCED' if ok else 'NOT REPRODUCED')
        return 1 if ok else 0
    tier = argv[1] if argv[1] in ('quick', 'thorough') else os.environ.get('VERIF_TIER', 'quick')
    seed = int(os.environ.get('VERIF_SEED', '0') or 0)
    from .core import Ctx, Inconclusive
    ctx = Ctx(pid, tier, seed)
    try:
        mod.run(ctx)
    except Inconclusive as e:
        ctx.inconc('harness', str(e))
    except Exception as e:  # harness error: never a pass, never a violation
        traceback.print_exc()
        ctx.inconc('harness', f'{type(e).__name__}: {e}')
    return ctx.finish()


if __name__ == '__main__':
    try:
        rc = main(sys.argv[1:])
    except SystemExit:
        raise
    except BaseException:            # a crash of the harness itself is never a verdict
        traceback.print_exc()
        rc = 2
    sys.exit(rc)
