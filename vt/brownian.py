"""Shared harness pieces for the Brownian properties (C03-C07, C20): the REAL BrownianInterval / BrownianPath /
BrownianTree / ReverseBrownian classes are constructed and queried with concolic times (symx.CR) and symbolic tensors."""
import sys
from fractions import Fraction

import numpy as np
import torch
import z3

from . import dag, symx, bshim
from .dag import Node, var, lift
from .symtorch import SymT, sym_tensor
from .symx import CR

bi = None


def setup():
    global bi
    bi = bshim.install()
    return bi


def cfg_name(cfg):
    return ','.join(f"{k}={cfg[k]}" for k in sorted(cfg))


DEFAULT = dict(wrapper='interval', levy='none', size=(2,), cache_size=45, dt=None, tol=0., halfway=False,
               supply_W=False, supply_H=False, sym_ends=False, entropy=1234, t0=0, t1=1, w0=0)


def make(E, cfg):
    """build the Brownian object described by cfg.  Returns (callable bm(ta,tb,**kw), top BrownianInterval, lo, hi)
    where [lo, hi] is the query range in the callable's own time coordinates."""
    import torchsde
    c = dict(DEFAULT); c.update(cfg)
    size = tuple(c['size'])
    if c['sym_ends']:
        t0 = E.input('T0', c['t0']); t1 = E.input('T1', c['t1'])
        E.assume(t0 < t1)
    else:
        t0, t1 = Fraction(c['t0']), Fraction(c['t1'])
        t0 = CR(t0, lift(t0)); t1 = CR(t1, lift(t1))
    W = H = None
    if c['supply_W']:
        W = sym_tensor(np.full(size, 0.3).tolist() if size else 0.3, 'W0')
    if c['supply_H']:
        H = sym_tensor(np.full(size, -0.1).tolist() if size else -0.1, 'H0')
    dt = c['dt']
    if dt == 'sym':
        dt = E.input('DT', Fraction(1, 4))
        E.assume(dt > 0)
    kw = dict(entropy=c['entropy'], levy_area_approximation=c['levy'], cache_size=c['cache_size'], dt=dt, tol=c['tol'],
              halfway_tree=c['halfway'])
    wrapper = c['wrapper']
    if wrapper in ('interval', 'reverse'):
        top = bi.BrownianInterval(t0=t0, t1=t1, size=size if (W is None and H is None) else None, dtype=torch.float64,
                                  W=W, H=H, **kw)
        if wrapper == 'reverse':
            rb = torchsde.ReverseBrownian(top)
            return rb, top, -t1, -t0
        return top, top, t0, t1
    if wrapper == 'path':
        w0 = torch.full(size, float(c['w0']), dtype=torch.float64)
        bp = torchsde.BrownianPath(t0=t0, w0=w0)
        return bp, bp._interval, t0, t0 + 1
    if wrapper == 'tree':
        w0 = torch.full(size, float(c['w0']), dtype=torch.float64)
        bt = torchsde.BrownianTree(t0=t0, w0=w0, t1=t1, entropy=c['entropy'], tol=c['tol'] or 0.1)
        return bt, bt._interval, t0, t1
    raise ValueError(wrapper)


def sym_query(E, name, lo, hi, default_a, default_b, grid=None, min_len=None):
    """symbolic (ta, tb) with lo <= ta < tb <= hi.  grid: (ndigits) -> constrain to the rounding grid ('resolved times')"""
    if grid is None:
        a = E.input(name + 'a', default_a); b = E.input(name + 'b', default_b)
    else:
        # resolved (grid) times: a bounded integer number of grid units, case-split through the solver so that every time on
        # the path is a constant (the rounding arithmetic then stays exact and cheap)
        scale = 10 ** grid
        klo, khi = int(lo.v * scale), int(hi.v * scale)
        ka = E.input_int(name + 'ka', min(max(int(default_a * scale), klo), khi), lo=klo, hi=khi)
        kb = E.input_int(name + 'kb', min(max(int(default_b * scale), klo), khi), lo=klo, hi=khi)
        E.assume(ka < kb)
        ka = E.concretize_int(ka, klo, khi); kb = E.concretize_int(kb, klo, khi)
        return ka / scale, kb / scale
    E.assume((a >= lo) & (b <= hi) & (a < b))
    if min_len is not None:
        E.assume(b - a >= min_len)
    return a, b


def nodes_of(top):
    out = []
    st = [top]
    while st:
        n = st.pop()
        out.append(n)
        if n._midway is not None:
            st.append(n._right_child); st.append(n._left_child)
    return out


def flat(x):
    if not hasattr(x, 'sym'):
        # a plain tensor (the library answers a query it considers empty with torch.zeros): constants
        return [lift(Fraction(float(v))) for v in x.reshape(-1).tolist()]
    return list(x.sym.reshape(-1))


_RF_MEMO = {}


def prove_eq(E, what, lhs, rhs):
    """lhs == rhs for all inputs on this path.
    1. structural identity;  2. square roots eliminated algebraically (r*r -> radicand), coefficients brought to rational
    normal form, z3 decides the residual polynomial under the path condition;  3. z3 on the raw terms with the square-root
    symbols left free (short timeout);  4. z3 with the defining equations of the square roots."""
    if lhs is rhs:
        return True
    pcs = E.path_constraints()
    claim = Node('eq', lhs, rhs)
    side = []
    zc = dag.to_z3(claim, E.zenv, E.zmemo, side)
    has_sqrt = any(k == 'sqrt' for k, _ in side)
    # 2) eliminate square roots algebraically and decide each coefficient of the normal form
    try:
        nf = dag.sqrt_normal(dag._sub(lhs, rhs))
    except NotImplementedError:
        nf = None
    if nf is not None and all(not _has_sqrt(c) for c in nf.values()):
        all_zero = True
        for mono, c in nf.items():
            if c is dag.ZERO:
                continue
            side2 = []
            try:
                if len(_RF_MEMO) > 30000:
                    _RF_MEMO.clear()
                num, D = dag.to_ratfun(c, _RF_MEMO)
                zc2 = num.to_z3(E.zenv) == 0
                side2 = [('den', dag._FACTORS[k].to_z3(E.zenv) != 0) for k in D]
            except NotImplementedError:
                zc2 = dag.to_z3(Node('eq', c, dag.ZERO), E.zenv, E.zmemo, side2)
            s = z3.Solver(); s.set('timeout', E.prove_timeout_ms)
            s.add(*pcs); s.add(*[cc for _, cc in side2]); s.add(z3.Not(zc2))
            r = E._check(s)
            if r != 'unsat':
                all_zero = False
                if not mono and r == 'sat' and len(nf) == 1:
                    m = s.model()
                    E.failures.append(symx.Failure(what, 'sat', E.model_inputs(m), _model_str(m), E.stats['paths']))
                    return False
                break
        if all_zero:
            return True
        # the normal form exists and a coefficient is not identically zero: the generators are algebraically independent
        # unless two radicands coincide as functions, so this is a counterexample candidate (the replay on floats decides)
        for mono, c in nf.items():
            if c is dag.ZERO:
                continue
            try:
                num, D = dag.to_ratfun(c, _RF_MEMO)
            except NotImplementedError:
                break
            s = z3.Solver(); s.set('timeout', E.prove_timeout_ms)
            s.add(*pcs); s.add(*[dag._FACTORS[k].to_z3(E.zenv) != 0 for k in D]); s.add(num.to_z3(E.zenv) != 0)
            r = E._check(s)
            if r == 'sat':
                m = s.model()
                E.failures.append(symx.Failure(what, 'sat', E.model_inputs(m), _model_str(m), E.stats['paths']))
                return False
            if r != 'unsat':
                E.failures.append(symx.Failure(what, 'unknown', {}, 'residual coefficient undecided', E.stats['paths']))
                return False
        else:
            return True
    # 4) full query with the defining equations of the square roots
    s = z3.Solver(); s.set('timeout', E.prove_timeout_ms)
    s.add(*pcs); s.add(*[c for _, c in side]); s.add(z3.Not(zc))
    r = E._check(s)
    if r == 'unsat':
        return True
    if r == 'sat':
        m = s.model()
        E.failures.append(symx.Failure(what, 'sat', E.model_inputs(m), _model_str(m), E.stats['paths']))
    else:
        E.failures.append(symx.Failure(what, 'unknown', {}, s.reason_unknown(), E.stats['paths']))
    return False


def _has_sqrt(n):
    for x in dag.topo([n]):
        if x.op == 'sqrt' or (x.op == 'const' and dag.algebraic_sqrt(x.args[0]) is not None):
            return True
    return False


def _model_str(m):
    return ', '.join(f"{d.name()}={m[d]}" for d in m.decls()[:40])


def prove_linear_eq(E, what, lhs, rhs, basis):
    """lhs == rhs as linear forms over the noise basis: coefficient-wise (the coefficient identities involve only
    times and square-root symbols, no products with noise values)."""
    if lhs is rhs:
        return True
    try:
        la, ca = dag.linear_form(lhs, basis)
        lb, cb = dag.linear_form(rhs, basis)
    except ValueError:
        return prove_eq(E, what, lhs, rhs)
    ok = True
    for k in sorted(set(la) | set(lb)):
        ok &= prove_eq(E, f"{what}[coef {k}]", la.get(k, dag.ZERO), lb.get(k, dag.ZERO))
    ok &= prove_eq(E, f"{what}[const]", ca, cb)
    return ok


def noise_basis(*nodes):
    s = set()
    memo = {}
    for n in nodes:
        if isinstance(n, str):
            s.add(n)
            continue
        s |= {v for v in dag.support(n, memo) if v[0] == 'N' or v.startswith('W0') or v.startswith('H0')}
    return s


class LocMonitor:
    """wraps _Interval._loc to record what each call returned (location lemma) and the Python frame depth"""

    def __init__(self):
        self.calls = []
        self.orig = bi._Interval._loc
        mon = self

        def _loc(self_, ta, tb):
            out = mon.orig(self_, ta, tb)
            mon.calls.append((ta, tb, list(out)))
            return out
        self._patched = _loc

    def __enter__(self):
        bi._Interval._loc = self._patched
        return self

    def __exit__(self, *a):
        bi._Interval._loc = self.orig


def frame_depth():
    f = sys._getframe()
    d = 0
    while f is not None:
        d += 1
        f = f.f_back
    return d
