"""Independent oracle: Ito / Stratonovich Taylor expansion of dy = f dt + sum_j g_j dW_j about (t0, y0), as graded series
with dag.Poly coefficients.  Built by applying the differential operators L^0, L^j to the polynomials F_i, G_ij obtained
from the user's f and g themselves (traced at the symbolic base point).

Grades: s = sqrt(h): 1, dW_j: 1, A_jk: 2, U_j: 3.   h = s^2.
Multiple integrals used (Kloeden-Platen ch. 5):  I_(j) = dW_j,  I_(j,j) = (dW_j^2 - h)/2,  I_(j,j,j) = (dW_j^3 - 3 h dW_j)/6,
I_(j,0) = U_j,  I_(0,j) = h dW_j - U_j;   Stratonovich J_(j,k) = dW_j dW_k / 2 + A_jk,  J_(j,j,j) = dW_j^3/6.
"""
from fractions import Fraction

from .dag import Poly

half = Fraction(1, 2)


def gm(**kw):
    return tuple(sorted((k, v) for k, v in kw.items() if v))


class Oracle:
    def __init__(self, F, G, yvars, tvar, dWn, Un, An=None):
        """F: list of Poly (d), G: d x m Polys.  yvars: names of y0_i; dWn/Un: names of increments per channel;
        An[j][k]: name of A_jk symbol for j<k (or None)"""
        self.F, self.G = F, G
        self.y, self.t = yvars, tvar
        self.d, self.m = len(F), len(G[0])
        self.dW, self.U, self.A = dWn, Un, An

    def Lj(self, j, p):
        tot = Poly()
        for i in range(self.d):
            tot = tot + self.G[i][j] * p.diff(self.y[i])
        return tot

    def L0(self, p, drift, ito_second_order):
        tot = p.diff(self.t)
        for i in range(self.d):
            tot = tot + drift[i] * p.diff(self.y[i])
        if ito_second_order:
            for i in range(self.d):
                for l in range(self.d):
                    c = Poly()
                    for j in range(self.m):
                        c = c + self.G[i][j] * self.G[l][j]
                    if c:
                        tot = tot + (c * p.diff(self.y[i]).diff(self.y[l])).scale(half)
        return tot

    def ito_drift(self, sde_type):
        if sde_type == 'ito':
            return list(self.F)
        out = []
        for i in range(self.d):
            corr = Poly()
            for j in range(self.m):
                corr = corr + self.Lj(j, self.G[i][j])
            out.append(self.F[i] + corr.scale(half))
        return out

    def A_term(self, j, k):
        """series for A_jk (antisymmetric); symbols exist for j<k"""
        if self.A is None or j == k:
            return {}
        if j < k:
            return {gm(**{self.A[j][k]: 1}): Poly.const(1)}
        return {gm(**{self.A[k][j]: 1}): Poly.const(-1)}

    def expansion(self, sde_type, i, max_grade):
        """component i: ({gmon: Poly} up to max_grade (<=3), mean series {gmon in s only: Poly} up to grade 4)"""
        S = {}

        def add(g, p):
            if p:
                S[g] = S.get(g, Poly()) + p
                if not S[g]:
                    del S[g]
        d, m = self.d, self.m
        ito = sde_type == 'ito'
        add((), Poly.var(self.y[i]))
        for j in range(m):
            add(gm(**{self.dW[j]: 1}), self.G[i][j])
        if max_grade >= 2:
            add(gm(s=2), self.F[i])
            for j in range(m):
                for k in range(m):
                    c = self.Lj(j, self.G[i][k])
                    if not c:
                        continue
                    if j == k:
                        add(gm(**{self.dW[j]: 2}), c.scale(half))
                        if ito:
                            add(gm(s=2), c.scale(-half))
                    else:
                        if ito:
                            raise NotImplementedError('Ito double integrals I_(j,k), j != k, with a non-vanishing coefficient '
                                                      '(non-commutative noise) are outside the oracle')
                        add(gm(**{self.dW[j]: 1, self.dW[k]: 1}), c.scale(half))
                        for g_, p_ in self.A_term(j, k).items():
                            add(g_, c * p_)
        if max_grade >= 3:
            drift = self.F
            for j in range(m):
                # L^j f I_(j,0)
                add(gm(**{self.U[j]: 1}), self.Lj(j, self.F[i]))
                # L^0 g_j I_(0,j)
                c = self.L0(self.G[i][j], drift, ito)
                add(gm(**{self.dW[j]: 1, 's': 2}), c)
                add(gm(**{self.U[j]: 1}), -c)
            for j1 in range(m):
                for j2 in range(m):
                    for j3 in range(m):
                        c = self.Lj(j1, self.Lj(j2, self.G[i][j3]))
                        if not c:
                            continue
                        if j1 == j2 == j3:
                            add(gm(**{self.dW[j1]: 3}), c.scale(Fraction(1, 6)))
                            if ito:
                                add(gm(**{self.dW[j1]: 1, 's': 2}), c.scale(-half))
                        else:
                            raise NotImplementedError('mixed triple integrals with a non-vanishing coefficient are outside the oracle')
        # mean of the exact solution: y + a h + (1/2) L0 a h^2, a = Ito drift
        a = self.ito_drift(sde_type)
        M = {(): Poly.var(self.y[i])}
        if a[i]:
            M[gm(s=2)] = a[i]
        l0a = self.L0(a[i], a, True)
        if l0a:
            M[gm(s=4)] = l0a.scale(half)
        return S, M
