"""E2: concolic (dynamic symbolic) execution of the scalar control code of torchsde.

Every scalar the real code branches on (times, step sizes, error ratios, enum-valued options) is a proxy carrying BOTH an
exact concrete value (Fraction) and a dag.Node.  Python `if`/`while`/`min`/`max`/`==` on proxies land in SymBool.__bool__,
which records (condition, outcome) on the current path and returns the concrete outcome.  After a run, the engine asks z3
for each recorded branch whether the *other* side is feasible under the path prefix; every `sat` answer yields concrete
inputs (exact rationals from the model) for a new run (generational search: no path is run twice).  The worklist running
empty means: every feasible path of the real code within the stated bounds has been executed once, and on each of them the
property assertions were decided by z3 *for all input values that follow that path*.

Tensor contents are E1 SymT objects (real torch kernels on concrete data + DAG payload), so each run doubles as a
validation of the symbolic model against the real kernels.
"""
import builtins
import itertools
import math
import time
from fractions import Fraction

import z3

from . import dag
from .dag import Node, lift, algebraic
from .core import Inconclusive


class PathAbort(BaseException):
    """bound exceeded / assumption needs re-solving (BaseException: must pass through `except Exception`)"""


class NeedResolve(PathAbort):
    pass


ENGINE = None


def _val(x):
    """exact concrete value with the algebraic reading of float constants"""
    if isinstance(x, CR):
        return x.v
    if isinstance(x, bool):
        return Fraction(int(x))
    if isinstance(x, (int, Fraction)):
        return Fraction(x)
    if isinstance(x, float):
        return algebraic(Fraction(x))
    raise TypeError(type(x))


def _node(x):
    if isinstance(x, CR):
        return x.n
    if isinstance(x, float):
        return Node('const', algebraic(Fraction(x)))
    return lift(x)


def _is_num(x):
    return isinstance(x, (int, float, Fraction, CR)) and not isinstance(x, bool) or isinstance(x, bool)


class SymBool:
    __slots__ = ('v', 'n')

    def __init__(self, v, n):
        self.v = bool(v)
        self.n = n

    def __bool__(self):
        return ENGINE.branch(self)

    def __and__(a, b):
        if isinstance(b, SymBool):
            return SymBool(a.v and b.v, Node('and', a.n, b.n))
        return a if b else SymBool(False, Node('not', Node('true')))

    def __or__(a, b):
        if isinstance(b, SymBool):
            return SymBool(a.v or b.v, Node('or', a.n, b.n))
        return SymBool(True, Node('true')) if b else a

    def __invert__(a):
        return SymBool(not a.v, Node('not', a.n))


class CR:
    """concolic real: exact concrete value + DAG node"""
    __slots__ = ('v', 'n')

    def __init__(self, v, n):
        self.v = v
        self.n = n

    # ---- arithmetic
    def _bin(a, b, op, f, swap=False):
        if isinstance(b, (int, float, Fraction, CR)):
            x, y = (_val(b), a.v) if swap else (a.v, _val(b))
            nx, ny = (_node(b), a.n) if swap else (a.n, _node(b))
            if isinstance(x, float) or isinstance(y, float):
                x, y = float(x), float(y)
            elif nx.op == 'const' and ny.op == 'const':
                v = f(x, y)
                return CR(v, lift(v))          # exact constant folding (Fractions)
            return CR(f(x, y), Node(op, nx, ny))
        return _tensor_bin(a, b, op, swap)

    def __add__(a, b): return a._bin(b, 'add', lambda x, y: x + y)
    def __radd__(a, b): return a._bin(b, 'add', lambda x, y: x + y, True)
    def __sub__(a, b): return a._bin(b, 'sub', lambda x, y: x - y)
    def __rsub__(a, b): return a._bin(b, 'sub', lambda x, y: x - y, True)
    def __mul__(a, b): return a._bin(b, 'mul', lambda x, y: x * y)
    def __rmul__(a, b): return a._bin(b, 'mul', lambda x, y: x * y, True)
    def __truediv__(a, b): return a._bin(b, 'div', _div)
    def __rtruediv__(a, b): return a._bin(b, 'div', _div, True)
    def __neg__(a): return CR(-a.v, lift(-a.v) if (a.n.op == 'const' and not isinstance(a.v, float)) else Node('neg', a.n))
    def __pos__(a): return a

    def __bool__(a):
        # Python truthiness of a number (`if x:`, `not x`, `x or y`): a branch on x != 0 like any other
        if a.n.op == 'const':
            return a.v != 0
        return bool(SymBool(a.v != 0, Node('not', Node('eq', a.n, lift(0)))))
    def __abs__(a): return CR(abs(a.v), Node('abs', a.n))

    def __and__(a, mask):
        # integer masking with 2^n - 1 == remainder modulo 2^n (used on integer-valued proxies only)
        if isinstance(mask, int) and mask >= 0 and (mask + 1) & mask == 0 and not isinstance(a.v, float) and a.v.denominator == 1:
            return CR(Fraction(int(a.v) & mask), Node('imod', a.n, mask + 1))
        return NotImplemented

    def __pow__(a, e):
        if isinstance(e, int) and not isinstance(e, bool):
            return CR(a.v ** e, Node('pow', a.n, e) if e != 1 else a.n)
        if isinstance(e, float) and e == int(e):
            return a.__pow__(int(e))
        if isinstance(e, (float, Fraction)):
            return ENGINE.real_pow(a, e)
        return NotImplemented

    def sqrt(a):
        return sym_sqrt(a)

    # ---- comparisons
    def _cmp(a, b, mk, f):
        if not isinstance(b, (int, float, Fraction, CR)):
            return NotImplemented
        x, y = a.v, _val(b)
        if isinstance(x, float) or isinstance(y, float):
            ENGINE.inexact_compare()
        return SymBool(f(x, y), mk(a.n, _node(b)))

    def __lt__(a, b): return a._cmp(b, lambda p, q: Node('gt', q, p), lambda x, y: x < y)
    def __le__(a, b): return a._cmp(b, lambda p, q: Node('ge', q, p), lambda x, y: x <= y)
    def __gt__(a, b): return a._cmp(b, lambda p, q: Node('gt', p, q), lambda x, y: x > y)
    def __ge__(a, b): return a._cmp(b, lambda p, q: Node('ge', p, q), lambda x, y: x >= y)

    def __eq__(a, b):
        r = a._cmp(b, lambda p, q: Node('eq', p, q), lambda x, y: x == y)
        return False if r is NotImplemented else r

    def __ne__(a, b):
        r = a._cmp(b, lambda p, q: Node('not', Node('eq', p, q)), lambda x, y: x != y)
        return True if r is NotImplemented else r

    __hash__ = None

    def __float__(self):
        return float(self.v)

    def __format__(self, spec):
        return format(float(self.v), spec)

    def __repr__(self):
        return f"<{float(self.v):.6g}|{dag.show(self.n, 3)}>"

    def item(self):
        return self

    # torch sees a CR as an operand (tensor on the left): lift it to a 0-d SymT and redo the op
    @classmethod
    def __torch_function__(cls, func, types, args=(), kwargs=None):
        kwargs = kwargs or {}
        import torch as _torch
        if func in (_torch.isclose, _torch.allclose) and len(args) >= 2 and all(isinstance(x, (CR, int, float, Fraction)) for x in args[:2]):
            # closeness test on two scalars: |a - b| <= atol + rtol*|b| (PyTorch's definition), a branch like any comparison
            a, b = (x if isinstance(x, CR) else CR(Fraction(x), lift(Fraction(x))) for x in args[:2])
            rtol = Fraction(str(kwargs.get('rtol', args[2] if len(args) > 2 else 1e-05)))
            atol = Fraction(str(kwargs.get('atol', args[3] if len(args) > 3 else 1e-08)))
            return abs(a - b) <= atol + rtol * abs(b)
        conv = lambda x: to_symt(x) if isinstance(x, CR) else x
        from torch.utils._pytree import tree_map
        return func(*tree_map(conv, args), **tree_map(conv, kwargs))


def _div(x, y):
    if y == 0:
        raise ZeroDivisionError('division by zero (concolic)')
    return x / y


def to_symt(c, dtype=None):
    import torch
    from .symtorch import SymT, _arr
    return SymT(torch.tensor(float(c.v), dtype=dtype or torch.float64), _arr(c.n))


def _tensor_bin(a, b, op, swap):
    import torch
    if isinstance(b, torch.Tensor):
        t = to_symt(a, b.dtype if b.is_floating_point() else None)
        f = {'add': torch.add, 'sub': torch.sub, 'mul': torch.mul, 'div': torch.div}[op]
        return f(b, t) if swap else f(t, b)
    return NotImplemented


def sym_sqrt(x):
    if not isinstance(x, CR):
        return math.sqrt(x)
    ENGINE.obligation_nonneg(x)
    return CR(math.sqrt(x.v), Node('sqrt', x.n))


def sym_round(x, ndigits=None):
    if not isinstance(x, CR):
        return builtins.round(x, ndigits) if ndigits is not None else builtins.round(x)
    return ENGINE.round(x, ndigits or 0)


class _FloatMeta(type):
    def __instancecheck__(cls, x):
        return isinstance(x, (builtins.float, CR))

    def __call__(cls, x=0.0):
        if isinstance(x, CR):
            return x
        import torch
        from .symtorch import SymT
        if isinstance(x, SymT) and x.dim() == 0:
            return from_symt(x)
        return builtins.float(x)


class float_shim(metaclass=_FloatMeta):
    """injected as `float` into module globals: identity on proxies, isinstance(x, float) keeps working"""


def from_symt(x):
    return CR(algebraic(Fraction(x.elem.item())), x.sym[()])


class MathShim:
    def __getattr__(self, k):
        return getattr(math, k)

    @staticmethod
    def sqrt(x):
        return sym_sqrt(x)


class SymEnum:
    """finite-domain symbolic string (concolic): comparisons branch through the solver"""

    def __init__(self, name, domain, engine=None):
        e = engine or ENGINE
        self.name = name
        self.domain = list(domain)
        self.idx = e.input_int(name, 0, lo=0, hi=len(self.domain) - 1)
        self.val = self.domain[int(self.idx.v)]

    def _is(self, s):
        if s in self.domain:
            return bool(self.idx == self.domain.index(s))
        return False

    def __eq__(self, o):
        if isinstance(o, SymEnum):
            o = o.concretize()
        if isinstance(o, str):
            return self._is(o)
        return False

    def __ne__(self, o):
        return not self.__eq__(o)

    def concretize(self):
        for i, d in enumerate(self.domain[:-1]):
            if bool(self.idx == i):
                return d
        return self.domain[-1]

    def __hash__(self):
        return hash(self.concretize())

    def __str__(self):
        return self.concretize()

    def __repr__(self):
        return repr(self.concretize())

    def __format__(self, spec):
        return format(self.concretize(), spec)


class Failure:
    def __init__(self, what, kind, inputs, detail, path_id):
        self.what = what
        self.kind = kind           # 'sat' | 'unknown' | 'exception' | 'concrete'
        self.inputs = inputs       # {name: Fraction}
        self.detail = detail
        self.path_id = path_id


class Engine:
    def __init__(self, ctx=None, max_paths=20000, max_branches=600, timeout_ms=60000, prove_timeout_ms=None):
        self.ctx = ctx
        self.max_paths = max_paths
        self.max_branches = max_branches
        self.timeout_ms = timeout_ms
        self.prove_timeout_ms = prove_timeout_ms or timeout_ms
        self.stats = dict(paths=0, queries=0, pruned=0, diverged=0, resolves=0, bound_hits=0, solver_s=0.0)
        self.failures = []
        self.zvars = {}
        self.int_vars = set()
        self.zmemo = {}
        self.path_log = []         # per completed path: dict(inputs=..., branches=n)
        self.uf_axioms = {}
        self._cur_timeout = timeout_ms

    # ------------------------------------------------------------ z3 plumbing
    def zenv(self, name):
        v = self.zvars.get(name)
        if v is None:
            v = z3.Int(name) if name in self.int_vars else z3.Real(name)
            self.zvars[name] = v
        return v

    def z(self, node, side=None):
        s = [] if side is None else side
        r = dag.to_z3(node, self.zenv, self.zmemo, s)
        return r

    def zcond(self, node):
        side = []
        r = dag.to_z3(node, self.zenv, self.zmemo, side)
        return r, side

    def _check(self, solver):
        from .core import z3_check
        t = time.time()
        r = z3_check(solver, self._cur_timeout)
        dt = time.time() - t
        self.stats['solver_s'] += dt
        self.stats['queries'] += 1
        if self.ctx is not None:
            self.ctx.solver_s += dt
            self.ctx.queries += 1
        return str(r)

    # ------------------------------------------------------------ inputs
    def input(self, name, default=0):
        """symbolic real input; concrete value from the current assignment"""
        if name not in self.declared:
            self.declared.append(name)
        v = self.assignment.get(name)
        if v is None:
            v = Fraction(default) if not isinstance(default, float) else algebraic(Fraction(default))
            self.assignment[name] = v
        return CR(v, dag.var(name))

    def input_int(self, name, default=0, lo=None, hi=None):
        self.int_vars.add(name)
        c = self.input(name, default)
        c = CR(Fraction(int(c.v)), c.n)
        if lo is not None:
            self.assume(c >= lo)
        if hi is not None:
            self.assume(c <= hi)
        return c

    def concretize_int(self, c, lo, hi):
        """case-split a bounded integer input through the solver: afterwards it is a constant on this path"""
        for v in range(lo, hi):
            if bool(c == v):
                return CR(Fraction(v), lift(v))
        self.assume(c == hi)
        return CR(Fraction(hi), lift(hi))

    def fresh(self, prefix, default=0):
        """output of a nondeterministic stub (environment): a new input, named by creation order on this path"""
        k = self.fresh_count.get(prefix, 0)
        self.fresh_count[prefix] = k + 1
        return self.input(f"{prefix}!{k}", default)

    # ------------------------------------------------------------ path recording
    def branch(self, sb):
        if self.no_branch_depth:
            return sb.v
        i = len(self.path)
        if i >= self.max_branches:
            self.stats['bound_hits'] += 1
            raise PathAbort('branch bound')
        self.path.append((sb.n, sb.v, 'branch'))
        if i < len(self.expect) and self.expect[i] != sb.v and not self.diverged:
            self.diverged = True
        return sb.v

    def assume(self, cond):
        if isinstance(cond, bool):
            if not cond:
                raise PathAbort('assume(False)')
            return
        self.path.append((cond.n, True, 'assume'))
        if not cond.v:
            raise NeedResolve()

    def inexact_compare(self):
        raise Inconclusive('branch on an inexact (sqrt / real-power derived) value')

    def obligation_nonneg(self, x):
        if x.v < 0:
            self.fail('sqrt-domain', 'concrete', f'sqrt of negative value {float(x.v)}')

    def round(self, x, ndigits):
        # round is a function: the same argument term gives the same witness; rounding an already rounded value is the identity
        key = (x.n, ndigits)
        hit = self.round_memo.get(key)
        if hit is not None:
            return hit
        if x.n.op == 'div' and x.n.args[0].op == 'var' and x.n.args[0].args[0] in self.int_vars \
                and x.n.args[1] is lift(Fraction(10) ** ndigits):
            return x
        if x.n.op == 'const' and not isinstance(x.v, float):
            scale = Fraction(10) ** ndigits
            v = Fraction(builtins.round(x.v * scale)) / scale       # exact, ties to even
            return CR(v, lift(v))
        r = self._round_new(x, ndigits)
        self.round_memo[key] = r
        return r

    def _round_new(self, x, ndigits):
        k = self.fresh_count.get('rnd', 0)
        self.fresh_count['rnd'] = k + 1
        name = f"rnd!{k}"
        self.int_vars.add(name)
        if name not in self.declared:
            self.declared.append(name)
        scale = Fraction(10) ** ndigits
        if isinstance(x.v, float):
            raise Inconclusive('round of inexact value')
        kv = builtins.round(x.v * scale)          # exact, ties to even (Fraction.__round__)
        kn = dag.var(name)
        y = Node('mul', x.n, lift(scale))
        half = lift(Fraction(1, 2))
        lo = Node('sub', kn, half)
        hi = Node('add', kn, half)
        # Python's round(): nearest, exact decimal ties to even (same rule for float and Fraction)
        inside = Node('and', Node('gt', y, lo), Node('gt', hi, y))
        tie = Node('and', Node('or', Node('eq', y, lo), Node('eq', y, hi)), Node('even', kn))
        self.path.append((Node('or', inside, tie), True, 'define'))
        self.rounds.append((name, x.n, ndigits))
        return CR(Fraction(kv) / scale, Node('div', kn, lift(scale)))

    def real_pow(self, a, e):
        """x ** e for a non-integer exponent: uninterpreted, with the monotonicity facts as path assumptions"""
        e = algebraic(Fraction(e))
        memo = getattr(self, 'pow_memo', None)
        if memo is None:
            memo = self.pow_memo = {}
        if (a.n, e) in memo:          # x ** e is a function: the same arguments give the same value on this path
            return memo[(a.n, e)]
        r = self.fresh('rpow', 1)
        val = float(a.v) ** float(e)
        # the concrete value follows the solver's choice when it made one (stub semantics), else the float value
        name = r.n.args[0]
        if name not in self.assignment:
            r = CR(Fraction(val).limit_denominator(10 ** 12), r.n)
        self.powers.append((r, a, e))
        one = lift(1)
        zero = lift(0)
        conds = [Node('gt', r.n, zero)]
        if e > 0:
            conds.append(Node('eq', Node('gt', a.n, one), Node('gt', r.n, one)))   # >1 iff >1
            conds.append(Node('eq', Node('eq', a.n, one), Node('eq', r.n, one)))
        for c in conds:
            self.path.append((c, True, 'define'))
        memo[(a.n, e)] = r
        return r

    # ------------------------------------------------------------ property assertions
    def fail(self, what, kind, detail):
        self.failures.append(Failure(what, kind, dict(self.assignment_full()), detail, self.stats['paths']))

    def assignment_full(self):
        out = {}
        for n in self.declared:
            out[n] = self.assignment.get(n, Fraction(0))
        return out

    def path_constraints(self):
        cached = getattr(self, '_pc_cache', None)
        if cached is not None and cached[0] is self.path and cached[1] == len(self.path):
            return cached[2]
        cs = self._path_constraints()
        self._pc_cache = (self.path, len(self.path), cs)
        return cs

    def _path_constraints(self):
        cs = []
        for n, taken, kind in self.path:
            zc, side = self.zcond(n)
            if any(k == 'sqrt' for k, _ in side):
                raise Inconclusive('path condition involves a square root')
            cs.extend(c for _, c in side)
            cs.append(zc if taken else z3.Not(zc))
        return cs

    def prove(self, what, claim, extra=(), use_side=True, timeout_ms=None):
        """claim: dag bool Node (or SymBool / z3 BoolRef) that must hold for ALL inputs following the current path."""
        side = []
        if isinstance(claim, SymBool):
            if not claim.v:
                self.fail(what, 'concrete', 'assertion false in the concrete run')
                return False
            claim = claim.n
        if isinstance(claim, bool):
            if not claim:
                self.fail(what, 'concrete', 'assertion concretely false')
            return claim
        zc = dag.to_z3(claim, self.zenv, self.zmemo, side) if isinstance(claim, Node) else claim
        s = z3.Solver()
        s.set('timeout', timeout_ms or self.prove_timeout_ms)
        s.add(*self.path_constraints())
        s.add(*[c for k, c in side if use_side or k != 'sqrt'])
        s.add(*extra)
        s.add(z3.Not(zc))
        r = self._check(s)
        if r == 'unsat':
            return True
        if r == 'sat':
            m = s.model()
            self.failures.append(Failure(what, 'sat', self.model_inputs(m), str(m)[:2000], self.stats['paths']))
        else:
            self.failures.append(Failure(what, 'unknown', {}, s.reason_unknown(), self.stats['paths']))
        return False

    def model_inputs(self, m):
        out = {}
        for name in self.declared:
            v = m.eval(self.zenv(name), model_completion=True)
            out[name] = _to_fraction(v)
        return out

    # ------------------------------------------------------------ exploration
    def explore(self, fn, on_path_end=None):
        """fn(engine): one run of the harness.  Returns list of Failure."""
        global ENGINE
        work = [({}, 0, [])]
        self.failures = []
        while work:
            assignment, bound, expect = work.pop()
            tries = 0
            while True:
                ENGINE = self
                self.assignment = dict(assignment)
                self.expect = expect
                self.path = []
                self.declared = []
                self.fresh_count = {}
                self.rounds = []
                self.round_memo = {}
                self.powers = []
                self.pow_memo = {}
                self.diverged = False
                self.no_branch_depth = 0
                aborted = None
                try:
                    fn(self)
                except NeedResolve:
                    # an assumption is concretely false: solve the path so far for inputs that satisfy it
                    self.stats['resolves'] += 1
                    tries += 1
                    if tries > 50:
                        raise Inconclusive('cannot satisfy assumptions')
                    s = z3.Solver(); s.set('timeout', self.timeout_ms)
                    s.add(*self.path_constraints())
                    r = self._check(s)
                    if r == 'unsat':
                        aborted = 'infeasible'
                        self.stats['pruned'] += 1
                        break
                    if r != 'sat':
                        raise Inconclusive(f'assumption query {r}')
                    assignment = self.model_inputs(s.model())
                    continue
                except PathAbort as e:
                    aborted = str(e)
                break
            if aborted == 'infeasible':
                continue
            if self.diverged:
                self.stats['diverged'] += 1
            self.stats['paths'] += 1
            if self.ctx is not None:
                self.ctx.paths += 1
            if on_path_end is not None:
                on_path_end(self, aborted)
            if len(self.path_log) < 40:
                self.path_log.append({'inputs': {k: str(v) for k, v in self.assignment_full().items()},
                                      'branches': len(self.path), 'aborted': aborted})
            stop = getattr(self, 'stop_after_failures', None)
            if stop and sum(1 for f in self.failures if f.kind != 'unknown') >= stop:
                break          # counterexamples in hand: no need to exhaust the (possibly much larger) broken path space
            if self.stats['paths'] >= self.max_paths:
                raise Inconclusive(f"path bound {self.max_paths} reached")
            # generational expansion
            s = z3.Solver(); s.set('timeout', self.timeout_ms)
            path = list(self.path)
            declared = list(self.declared)
            for i, (n, taken, kind) in enumerate(path):
                zc, side = self.zcond(n)
                if any(k == 'sqrt' for k, _ in side):
                    raise Inconclusive('path condition involves a square root')
                s.add(*[c for _, c in side])
                c = zc if taken else z3.Not(zc)
                if kind == 'branch' and i >= bound:
                    s.push()
                    s.add(z3.Not(c))
                    r = self._check(s)
                    if r == 'sat':
                        m = s.model()
                        newa = {}
                        for name in declared:
                            newa[name] = _to_fraction(m.eval(self.zenv(name), model_completion=True))
                        work.append((newa, i + 1, [t for _, t, k in path[:i]] + [not taken]))
                    elif r == 'unsat':
                        self.stats['pruned'] += 1
                    else:
                        raise Inconclusive(f'branch feasibility query returned {r}')
                    s.pop()
                s.add(c)
        return self.failures


class no_branch:
    """context manager: comparisons inside return their concrete value without recording (for printing / monitors)"""

    def __enter__(self):
        ENGINE.no_branch_depth += 1

    def __exit__(self, *a):
        ENGINE.no_branch_depth -= 1


def _to_fraction(v):
    if z3.is_int_value(v):
        return Fraction(v.as_long())
    if z3.is_rational_value(v):
        return Fraction(v.numerator_as_long(), v.denominator_as_long())
    if z3.is_algebraic_value(v):
        return Fraction(v.approx(20).numerator_as_long(), v.approx(20).denominator_as_long())
    raise Inconclusive(f'non-numeric model value {v}')
