"""Truncated graded power series with exact polynomial (dag.Poly) coefficients.

A series is {gmon: Poly}; gmon = tuple(sorted((gvar, exp))) over the *small* variables (s = sqrt(h), dW_j, U_j, A_jk);
exponents of 's' may be negative (1/dt, 1/sqrt(dt) in SRK / grad-free Milstein).  Grades: s,dW:1  A:2  U:3.
"""
import math
from fractions import Fraction

from .dag import Poly, topo, algebraic


class SeriesCtx:
    def __init__(self, grades, K, slack=4):
        self.grades = dict(grades)
        self.K = K
        self.slack = slack

    def grade(self, gm):
        return sum(self.grades[v] * e for v, e in gm)

    def const(self, p):
        return {(): p} if p else {}

    def add(self, a, b):
        r = dict(a)
        for m, c in b.items():
            v = r[m] + c if m in r else c
            if v: r[m] = v
            else: r.pop(m, None)
        return r

    def neg(self, a):
        return {m: -c for m, c in a.items()}

    def mulmon(self, m1, m2):
        if not m1: return m2
        if not m2: return m1
        d = dict(m1)
        for v, e in m2:
            d[v] = d.get(v, 0) + e
            if d[v] == 0: del d[v]
        return tuple(sorted(d.items()))

    def mul(self, a, b, K=None):
        K = self.K + self.slack if K is None else K
        r = {}
        gb = [(m2, c2, self.grade(m2)) for m2, c2 in b.items()]
        for m1, c1 in a.items():
            g1 = self.grade(m1)
            for m2, c2, g2 in gb:
                if g1 + g2 > K: continue
                m = self.mulmon(m1, m2)
                v = c1 * c2
                if m in r:
                    v = r[m] + v
                if v: r[m] = v
                else: r.pop(m, None)
        return r

    def lowest(self, a):
        gmin = min(self.grade(m) for m in a)
        return gmin, [m for m in a if self.grade(m) == gmin]

    def _split_lead(self, a, what):
        gmin, lows = self.lowest(a)
        if len(lows) != 1:
            raise NotImplementedError(f"series {what}: non-monomial leading part")
        m0 = lows[0]
        c0 = a[m0].as_const()
        if c0 is None:
            raise NotImplementedError(f"series {what}: symbolic leading coefficient")
        inv_m0 = tuple((v, -e) for v, e in m0)
        eps = {}
        for m, c in a.items():
            if m == m0: continue
            eps[self.mulmon(m, inv_m0)] = c.scale(1 / c0)
        return gmin, m0, c0, inv_m0, eps

    def inv(self, a):
        gmin, m0, c0, inv_m0, eps = self._split_lead(a, 'division')
        Kx = self.K + self.slack + abs(gmin)
        acc = {(): Poly.const(1)}
        term = {(): Poly.const(1)}
        neg_eps = self.neg(eps)
        for _ in range(Kx + 1):
            term = self.mul(term, neg_eps, Kx)
            if not term: break
            acc = self.add(acc, term)
        return {self.mulmon(m, inv_m0): c.scale(1 / c0) for m, c in acc.items()}

    def sqrt(self, a):
        gmin, m0, c0, inv_m0, eps = self._split_lead(a, 'sqrt')
        if any(e % 2 for v, e in m0):
            raise NotImplementedError("series sqrt: odd leading monomial")
        r0 = Fraction(math.isqrt(c0.numerator), math.isqrt(c0.denominator))
        if c0 < 0 or r0 * r0 != c0:
            raise NotImplementedError("series sqrt: irrational leading constant")
        half = tuple((v, e // 2) for v, e in m0)
        Kx = self.K + self.slack + abs(gmin)
        acc = {(): Poly.const(1)}
        term = {(): Poly.const(1)}
        coef = Fraction(1)
        for k in range(1, Kx + 1):
            coef = coef * (Fraction(1, 2) - (k - 1)) / k
            term = self.mul(term, eps, Kx)
            if not term: break
            acc = self.add(acc, {m: c.scale(coef) for m, c in term.items()})
        return {self.mulmon(m, half): c.scale(r0) for m, c in acc.items()}

    def trunc(self, a, K=None):
        K = self.K if K is None else K
        return {m: c for m, c in a.items() if self.grade(m) <= K}


def to_series(n, ctx, leaf, memo=None):
    """leaf(name) -> series for a var"""
    memo = {} if memo is None else memo
    for x in topo([n]):
        if x in memo:
            continue
        op = x.op
        a = x.args
        if op == 'var': r = leaf(a[0])
        elif op == 'const': r = ctx.const(Poly.const(algebraic(a[0])))
        elif op == 'add': r = ctx.add(memo[a[0]], memo[a[1]])
        elif op == 'sub': r = ctx.add(memo[a[0]], ctx.neg(memo[a[1]]))
        elif op == 'mul': r = ctx.mul(memo[a[0]], memo[a[1]])
        elif op == 'div': r = ctx.mul(memo[a[0]], ctx.inv(memo[a[1]]))
        elif op == 'neg': r = ctx.neg(memo[a[0]])
        elif op == 'pow':
            b = memo[a[0]]; e = a[1]
            if e < 0:
                b = ctx.inv(b); e = -e
            r = ctx.const(Poly.const(1))
            for _ in range(e): r = ctx.mul(r, b)
        elif op == 'sqrt': r = ctx.sqrt(memo[a[0]])
        else: raise NotImplementedError(f"series: {op}")
        memo[x] = r
    return memo[n]


def dfact(n):
    """(n-1)!! = E[Z^n] for even n"""
    r = 1
    while n > 1:
        r *= n - 1
        n -= 2
    return r
