"""CrossHair (E3) contracts on pure-Python units of torchsde: the checks call the REAL functions."""
from typing import List, Tuple

from torchsde._brownian.brownian_interval import _LRUDict, _EmptyDict
from torchsde._core.misc import is_strictly_increasing


def _lru_state(max_size: int, keys: List[int]) -> _LRUDict:
    d = _LRUDict(max_size)
    # construct an arbitrary valid state directly (representation invariant: _keys is a duplicate-free permutation of
    # the stored keys and len <= max_size), skipping the history that led to it
    for k in keys:
        dict.__setitem__(d, k, k)
    d._keys = list(keys)
    return d


def lru_one_step(max_size: int, keys: List[int], new_key: int) -> Tuple[int, bool, bool, bool]:
    """
    pre: 1 <= max_size <= 3
    pre: len(keys) <= max_size
    pre: len(set(keys)) == len(keys)
    post: _[0] <= max_size
    post: _[1]
    post: _[2]
    post: _[3]
    """
    d = _lru_state(max_size, keys)
    d[new_key] = 7
    perm = sorted(d._keys) == sorted(d.keys()) and len(set(d._keys)) == len(d._keys)
    newest = d._keys[-1] == new_key and d[new_key] == 7
    # eviction only when full and the key is new, and then the least recently used one goes
    expected = [k for k in keys if k != new_key]
    if new_key not in keys and len(keys) >= max_size:
        expected = expected[1:]
    return len(d), perm, newest, d._keys[:-1] == expected


def empty_dict_stores_nothing(k: int, v: int) -> bool:
    """
    post: _
    """
    d = _EmptyDict()
    d[k] = v
    try:
        d[k]
    except KeyError:
        return True
    return False


def strictly_increasing(ts: List[int]) -> bool:
    """
    pre: 2 <= len(ts) <= 4
    post: _ == all(ts[i] < ts[i + 1] for i in range(len(ts) - 1))
    """
    return is_strictly_increasing(ts)
