"""CrossHair (E3) contracts on pure-Python units of torchsde: the checks call the REAL functions."""
from typing import List, Tuple

from torchsde._brownian.brownian_interval import _LRUDict, _EmptyDict
from torchsde._core.misc import is_strictly_increasing


def empty_dict_stores_nothing(k: int, v: int) -> bool:
    """
    post: _
    """
    d = _EmptyDict()
    d[k] = v
    try:
        d[k]
    except KeyError:
        return True
    return False


def strictly_increasing(ts: List[int]) -> bool:
    """
    pre: 2 <= len(ts) <= 4
    post: _ == all(ts[i] < ts[i + 1] for i in range(len(ts) - 1))
    """
    return is_strictly_increasing(ts)
