"""E1: symbolic payload carried through the REAL torch code via __torch_dispatch__.

SymT wraps an ordinary concrete tensor `elem` plus a numpy object array `sym` of dag.Node of the same shape.  Every ATen
op the real torchsde code (and PyTorch's autograd engine) executes arrives in __torch_dispatch__; the concrete result is
computed with the real kernel, the symbolic one with a small per-op handler below.  An op without handler raises
Unsupported (-> the check is inconclusive, never a silent pass).
"""
import numpy as np
import torch
from torch.utils._pytree import tree_map

from .dag import Node, lift, var, ZERO, ONE, to_float


class Unsupported(Exception):
    pass


OPS_SEEN = set()
CONCRETE_OPS = {'aten.any.default', 'aten.all.default', 'aten.eq.Tensor', 'aten.eq.Scalar', 'aten.ne.Tensor', 'aten.ne.Scalar',
                'aten.allclose.default', 'aten.equal.default', 'aten.is_nonzero.default'}
HANDLERS = {}


def handler(*names):
    def deco(f):
        for n in names:
            HANDLERS[n] = f
        return f
    return deco


def obj(values):
    """numpy object array of const nodes from nested numbers"""
    arr = np.asarray(values, dtype=object)
    out = np.empty(arr.shape, dtype=object)
    fo = out.reshape(-1)
    for i, v in enumerate(arr.reshape(-1)):
        fo[i] = lift(v)
    return out


def const_array(t):
    t = t.detach()
    a = np.empty(tuple(t.shape), dtype=object)
    fl = a.reshape(-1)
    if t.dtype == torch.bool:
        vals = t.reshape(-1).tolist()
        for i, v in enumerate(vals): fl[i] = bool(v)
        return a
    vals = t.reshape(-1).to(torch.float64).tolist() if t.is_floating_point() else t.reshape(-1).tolist()
    for i, v in enumerate(vals):
        fl[i] = lift(v)
    return a


class SymT(torch.Tensor):
    @staticmethod
    def __new__(cls, elem, sym):
        r = torch.Tensor._make_wrapper_subclass(cls, elem.size(), strides=elem.stride(),
                                                storage_offset=elem.storage_offset(), dtype=elem.dtype,
                                                layout=elem.layout, device=elem.device,
                                                requires_grad=elem.requires_grad)
        r.elem = elem.detach() if elem.requires_grad else elem
        if not isinstance(sym, np.ndarray):
            a = np.empty((), dtype=object); a[()] = sym; sym = a
        assert tuple(sym.shape) == tuple(elem.shape), (sym.shape, tuple(elem.shape))
        r.sym = sym
        return r

    def __repr__(self):
        return f"SymT({self.elem})"

    @classmethod
    def __torch_function__(cls, func, types, args=(), kwargs=None):
        # pinverse decomposes into an SVD below the dispatcher; intercept it one level up with the closed form
        # (g^T g)^-1 g^T, valid for full column rank (stated assumption), noise size <= 2
        if func in (torch.Tensor.pinverse, torch.pinverse, torch.linalg.pinv):
            return sym_pinverse(args[0])
        # no subclass re-wrapping of plain results (the default implementation would turn a plain tensor returned by a
        # concretised predicate into a SymT shell without payload)
        with torch._C.DisableTorchFunctionSubclass():
            return func(*args, **(kwargs or {}))

    @classmethod
    def __torch_dispatch__(cls, func, types, args=(), kwargs=None):
        kwargs = kwargs or {}
        un = lambda x: x.elem if isinstance(x, SymT) else x
        out = func(*tree_map(un, args), **tree_map(un, kwargs))
        name = str(func)
        OPS_SEEN.add(name)
        ip = INPLACE.get(name)
        if ip is not None:
            target = args[0]
            if not isinstance(target, SymT):
                raise Unsupported(f"in-place {name} on a plain tensor with symbolic operand")
            sy_ = lambda x: (x.sym if isinstance(x, SymT) else (const_array(x) if isinstance(x, torch.Tensor) else x))
            new = ip(*tree_map(sy_, args), **tree_map(sy_, kwargs))
            target.sym = np.broadcast_to(_arr(new), target.sym.shape).copy()
            return target
        if name in CONCRETE_OPS:
            # data-dependent predicate (any / all / ==): the concrete outcome of this run is used and the event is logged,
            # so a check can tell that control depended on tensor contents at this point (concolic concretisation)
            CONCRETIZED.append(('predicate', name))
            return out
        h = HANDLERS.get(name)
        if h is None:
            raise Unsupported(f"no symbolic handler for {name}")
        sy = lambda x: (x.sym if isinstance(x, SymT) else (const_array(x) if isinstance(x, torch.Tensor) else x))
        sargs = tree_map(sy, args)
        skw = tree_map(sy, kwargs)
        sout = h(*sargs, **skw)
        if isinstance(out, torch.Tensor):
            if not isinstance(sout, np.ndarray):
                sout = _arr(sout)
            if sout.shape != tuple(out.shape):
                sout = np.broadcast_to(sout, tuple(out.shape)) if sout.size != out.numel() else sout.reshape(tuple(out.shape))
            return SymT(out, sout)
        if isinstance(out, (tuple, list)):
            return type(out)(SymT(o, s) for o, s in zip(out, sout))
        return out


def _inv_small(G):
    m = G.shape[-1]
    if m == 1:
        return 1 / G
    if m == 2:
        a, b, c, d = G[:, 0, 0], G[:, 0, 1], G[:, 1, 0], G[:, 1, 1]
        det = a * d - b * c
        return torch.stack([torch.stack([d, -b], dim=-1), torch.stack([-c, a], dim=-1)], dim=-2) / det.unsqueeze(-1).unsqueeze(-1)
    raise Unsupported('pinverse for a Gram matrix larger than 2x2')


def sym_pinverse(g):
    """closed form of the Moore-Penrose inverse for full rank: (g^T g)^-1 g^T (tall / square) or g^T (g g^T)^-1 (wide)"""
    if g.dim() == 2:
        return sym_pinverse(g.unsqueeze(0)).squeeze(0)
    gt = g.transpose(-1, -2)
    PINV_USED.append(tuple(g.shape))
    if g.shape[-2] >= g.shape[-1]:
        return torch.bmm(_inv_small(torch.bmm(gt, g)), gt)
    return torch.bmm(gt, _inv_small(torch.bmm(g, gt)))


PINV_USED = []


def _arr(x):
    if isinstance(x, np.ndarray):
        return x
    a = np.empty((), dtype=object)
    a[()] = x if isinstance(x, (Node, bool, np.bool_)) else lift(x)
    return a


def _map(f, a):
    a = _arr(a)
    out = np.empty(a.shape, dtype=object)
    fo = out.reshape(-1)
    for i, v in enumerate(a.reshape(-1)):
        fo[i] = f(v)
    return out


def _map2(f, a, b):
    a, b = np.broadcast_arrays(_arr(a), _arr(b))
    out = np.empty(a.shape, dtype=object)
    fo = out.reshape(-1)
    for i, (x, y) in enumerate(zip(a.reshape(-1), b.reshape(-1))):
        fo[i] = f(x, y)
    return out


def _map3(f, a, b, c):
    a, b, c = np.broadcast_arrays(_arr(a), _arr(b), _arr(c))
    out = np.empty(a.shape, dtype=object)
    fo = out.reshape(-1)
    for i, (x, y, z) in enumerate(zip(a.reshape(-1), b.reshape(-1), c.reshape(-1))):
        fo[i] = f(x, y, z)
    return out


@handler('aten.add.Tensor', 'aten.add.Scalar')
def _add(a, b, alpha=1):
    b = _arr(b)
    if alpha != 1:
        b = b * lift(alpha)
    return _arr(a) + b


@handler('aten.sub.Tensor', 'aten.sub.Scalar')
def _sub(a, b, alpha=1):
    b = _arr(b)
    if alpha != 1:
        b = b * lift(alpha)
    return _arr(a) - b


@handler('aten.rsub.Scalar', 'aten.rsub.Tensor')
def _rsub(a, b, alpha=1):
    return _arr(b) - _arr(a)


@handler('aten.mul.Tensor', 'aten.mul.Scalar')
def _mul(a, b):
    return _arr(a) * _arr(b)


@handler('aten.div.Tensor', 'aten.div.Scalar')
def _div(a, b):
    return _arr(a) / _arr(b)


@handler('aten.neg.default')
def _neg(a):
    return -a


@handler('aten.reciprocal.default')
def _recip(a):
    return _arr(ONE) / a


@handler('aten.sqrt.default')
def _sqrt(a):
    return _map(lambda v: Node('sqrt', v), a)


@handler('aten.rsqrt.default')
def _rsqrt(a):
    return _map(lambda v: Node('div', ONE, Node('sqrt', v)), a)


@handler('aten.pow.Tensor_Scalar')
def _pow(a, n):
    if float(n) == int(n):
        n = int(n)
        if n == 1:
            return a
        return _map(lambda v: Node('pow', v, n), a)
    if float(n) == 0.5:
        return _sqrt(a)
    raise Unsupported(f"pow {n}")


@handler('aten.abs.default')
def _abs(a):
    return _map(lambda v: Node('abs', v), a)


@handler('aten.sign.default', 'aten.sgn.default')
def _sign(a):
    return _map(lambda v: Node('sign', v), a)


@handler('aten.maximum.default')
def _maximum(a, b):
    return _map2(lambda x, y: Node('max', x, y), a, b)


@handler('aten.minimum.default')
def _minimum(a, b):
    return _map2(lambda x, y: Node('min', x, y), a, b)


@handler('aten.clamp_min.default')
def _clamp_min(a, m):
    m = lift(m)
    return _map(lambda v: Node('max', v, m), a)


@handler('aten.clamp.default')
def _clamp(a, lo=None, hi=None):
    if lo is not None:
        a = _clamp_min(a, lo)
    if hi is not None:
        h = lift(hi); a = _map(lambda v: Node('min', v, h), a)
    return a


@handler('aten.gt.Scalar', 'aten.gt.Tensor')
def _gt(a, b):
    return _map2(lambda x, y: Node('gt', x, y), a, b)


@handler('aten.ge.Scalar', 'aten.ge.Tensor')
def _ge(a, b):
    return _map2(lambda x, y: Node('ge', x, y), a, b)


@handler('aten.lt.Scalar', 'aten.lt.Tensor')
def _lt(a, b):
    return _map2(lambda x, y: Node('gt', y, x), a, b)


@handler('aten.le.Scalar', 'aten.le.Tensor')
def _le(a, b):
    return _map2(lambda x, y: Node('ge', y, x), a, b)


@handler('aten.where.self')
def _where(c, a, b):
    def f(cc, x, y):
        if isinstance(cc, (bool, np.bool_)):
            return x if cc else y
        return Node('ite', cc, x, y)
    return _map3(f, c, a, b)


@handler('aten.full_like.default')
def _full_like(a, fill_value, **kw):
    f = lift(fill_value)
    return _map(lambda v: f, a)


@handler('aten.isnan.default')
def _isnan(a):
    return _map(lambda v: False, a)


@handler('aten.any.default')
def _any(a):
    flat = list(a.reshape(-1))
    if all(isinstance(v, (bool, np.bool_)) for v in flat):
        return _arr(any(flat))
    raise Unsupported('any on symbolic booleans')


@handler('aten.select.int')
def _select(a, dim, idx):
    return np.take(a, idx, axis=dim)


@handler('aten.unsqueeze.default')
def _unsq(a, dim):
    if dim < 0:
        dim += a.ndim + 1
    return np.expand_dims(a, dim)


@handler('aten.squeeze.dim')
def _sq(a, dim):
    return np.squeeze(a, axis=dim) if a.ndim and a.shape[dim] == 1 else a


@handler('aten.squeeze.default')
def _sq0(a):
    return np.squeeze(a)


@handler('aten.squeeze.dims')
def _sqd(a, dims):
    dims = tuple(d for d in dims if a.shape[d] == 1)
    return np.squeeze(a, axis=dims) if dims else a


@handler('aten.view.default', 'aten._unsafe_view.default', 'aten.reshape.default')
def _view(a, shape):
    return a.reshape(tuple(shape))


@handler('aten.expand.default')
def _expand(a, shape, implicit=False):
    shape = tuple(a.shape[i - (len(shape) - a.ndim)] if s == -1 else s for i, s in enumerate(shape))
    return np.broadcast_to(a, shape)


@handler('aten.transpose.int')
def _tr(a, d0, d1):
    return np.swapaxes(a, d0, d1)


@handler('aten.t.default')
def _t(a):
    return a.T


@handler('aten.permute.default')
def _perm(a, dims):
    return np.transpose(a, dims)


@handler('aten.sum.dim_IntList')
def _sumd(a, dims, keepdim=False, dtype=None):
    if dims is None or len(dims) == 0:
        return _sum_all(a, keepdim)
    return _reduce_sum(a, tuple(d % a.ndim for d in dims), keepdim)


def _reduce_sum(a, axes, keepdim):
    # left-to-right accumulation along the reduced axes (documented model of the kernel's summation order)
    keep = [i for i in range(a.ndim) if i not in axes]
    perm = keep + list(axes)
    b = np.transpose(a, perm)
    kshape = b.shape[:len(keep)]
    b = b.reshape(kshape + (-1,))
    out = np.empty(kshape, dtype=object)
    for idx in np.ndindex(*kshape):
        acc = None
        for v in b[idx]:
            acc = v if acc is None else acc + v
        out[idx] = acc if acc is not None else ZERO
    if keepdim:
        shp = [1 if i in axes else a.shape[i] for i in range(a.ndim)]
        out = out.reshape(shp)
    return out


def _sum_all(a, keepdim=False):
    acc = None
    for v in a.reshape(-1):
        acc = v if acc is None else acc + v
    r = _arr(acc if acc is not None else ZERO)
    return r.reshape((1,) * a.ndim) if keepdim else r


@handler('aten.sum.default')
def _sum(a, dtype=None):
    return _sum_all(a)


@handler('aten.mean.default')
def _mean(a, dtype=None):
    return _sum_all(a) / _arr(lift(a.size))


@handler('aten.mean.dim')
def _meand(a, dims, keepdim=False, dtype=None):
    axes = tuple(d % a.ndim for d in dims)
    n = 1
    for d in axes: n *= a.shape[d]
    return _reduce_sum(a, axes, keepdim) / _arr(lift(n))


@handler('aten.bmm.default')
def _bmm(a, b):
    B, n, k = a.shape
    m = b.shape[2]
    out = np.empty((B, n, m), dtype=object)
    for i in range(B):
        for r in range(n):
            for c in range(m):
                acc = None
                for q in range(k):
                    t = a[i, r, q] * b[i, q, c]
                    acc = t if acc is None else acc + t
                out[i, r, c] = acc if acc is not None else ZERO
    return out


@handler('aten.mm.default')
def _mm(a, b):
    return _bmm(a[None], b[None])[0]


@handler('aten.cat.default')
def _cat(ts, dim=0):
    ts = [t for t in ts if not (t.ndim == 1 and t.size == 0)]
    return np.concatenate(ts, axis=dim)


@handler('aten.stack.default')
def _stack(ts, dim=0):
    return np.stack(ts, axis=dim)


@handler('aten.zeros_like.default')
def _zl(a, **kw):
    return obj(np.zeros(a.shape))


@handler('aten.ones_like.default')
def _ol(a, **kw):
    return obj(np.ones(a.shape))


@handler('aten.new_zeros.default')
def _nz(a, size, **kw):
    return obj(np.zeros(tuple(size)))


@handler('aten.clone.default', 'aten.detach.default', 'aten.alias.default', 'aten._to_copy.default',
         'aten.contiguous.default', 'aten.lift_fresh.default', 'aten.view_as.default')
def _id(a, *args, **kw):
    return a


@handler('aten.as_strided.default')
def _as_strided(a, size, stride, offset=None):
    flat = a.reshape(-1)
    if tuple(size) == ():
        return _arr(flat[offset or 0])
    raise Unsupported('as_strided general')


@handler('aten.split_with_sizes.default')
def _sws(a, sizes, dim=0):
    idx = np.cumsum(sizes)[:-1]
    return list(np.split(a, idx, axis=dim))


@handler('aten.split.Tensor')
def _split(a, size, dim=0):
    n = a.shape[dim]
    return [np.take(a, range(i, min(i + size, n)), axis=dim) for i in range(0, n, size)]


@handler('aten.slice.Tensor')
def _slice(a, dim=0, start=None, end=None, step=1):
    sl = [slice(None)] * a.ndim
    if end is not None and end > 2 ** 62:
        end = None
    sl[dim] = slice(start, end, step)
    return a[tuple(sl)]


@handler('aten.select_backward.default')
def _select_bw(grad, sizes, dim, idx):
    out = obj(np.zeros(tuple(sizes)))
    sl = [slice(None)] * len(sizes)
    sl[dim] = idx
    out[tuple(sl)] = grad[()] if getattr(grad, 'ndim', 1) == 0 else grad
    return out


@handler('aten.slice_backward.default')
def _slice_bw(grad, sizes, dim, start, end, step):
    out = obj(np.zeros(tuple(sizes)))
    if end is not None and end > 2 ** 62:
        end = None
    sl = [slice(None)] * len(sizes)
    sl[dim] = slice(start, end, step)
    out[tuple(sl)] = grad
    return out


@handler('aten.unbind.int')
def _unbind(a, dim=0):
    return [np.take(a, i, axis=dim) for i in range(a.shape[dim])]


@handler('aten.zeros.default')
def _zeros(size, **kw):
    return obj(np.zeros(tuple(size)))


@handler('aten.ones.default')
def _ones(size, **kw):
    return obj(np.ones(tuple(size)))


@handler('aten.new_empty_strided.default')
def _nes(a, size, stride, **kw):
    return obj(np.zeros(tuple(size)))


@handler('aten.copy_.default')
def _copy_(dst, src, non_blocking=False):
    return np.broadcast_to(_arr(src), dst.shape).copy()


@handler('aten.is_same_size.default')
def _iss(a, b):
    return a.shape == b.shape


@handler('aten.flip.default')
def _flip(a, dims):
    return np.flip(a, axis=tuple(dims))


@handler('aten.repeat_interleave.self_int')
def _ri(a, repeats, dim=None, output_size=None):
    return np.repeat(a, repeats, axis=dim)


@handler('aten.repeat.default')
def _repeat(a, reps):
    return np.tile(a, tuple(reps))


@handler('aten.diagonal.default')
def _diag(a, offset=0, dim1=0, dim2=1):
    return np.diagonal(a, offset, dim1, dim2)


@handler('aten.diagonal_backward.default')
def _diag_bw(grad, sizes, offset, dim1, dim2):
    out = obj(np.zeros(tuple(sizes)))
    n = len(sizes)
    d1, d2 = dim1 % n, dim2 % n
    for idx in np.ndindex(*grad.shape):
        rest = list(idx[:-1]); k = idx[-1]
        full = [None] * n
        it = iter(rest)
        for p in range(n):
            if p == d1 or p == d2:
                full[p] = k
            else:
                full[p] = next(it)
        out[tuple(full)] = grad[idx]
    return out


@handler('aten.index_select.default')
def _isel(a, dim, index):
    return np.take(a, [int(i.args[0]) for i in index.reshape(-1)], axis=dim)


CONCRETIZED = []   # nodes whose value was read out as a Python number (float(x), x.item()): symbolic information lost there


@handler('aten._local_scalar_dense.default')
def _item(a):
    CONCRETIZED.append(a.reshape(-1)[0])
    return None


@handler('aten.sym_size.int')
def _symsize(a, d):
    return a.shape[d]


# in-place ops: the payload of the target object is replaced (no storage aliasing between views is modelled; the
# per-run validation of outputs against the real kernels exposes any case where that matters)
INPLACE = {
    'aten.add_.Tensor': _add, 'aten.sub_.Tensor': _sub, 'aten.mul_.Tensor': _mul, 'aten.div_.Tensor': _div,
    'aten.add_.Scalar': _add, 'aten.sub_.Scalar': _sub, 'aten.mul_.Scalar': _mul, 'aten.div_.Scalar': _div,
    'aten.neg_.default': _neg,
}


@handler('aten.zero_.default', 'aten.fill_.Scalar', 'aten.addcmul_.default')
def _inplace(*a, **k):
    raise Unsupported('in-place op on symbolic tensor')


# ---------------------------------------------------------------- helpers for harnesses
def sym_tensor(values, names, requires_grad=False, dtype=torch.float64):
    """tensor of fresh variables.  names: nested list of strings matching values' shape, or a prefix string."""
    t = torch.tensor(values, dtype=dtype)
    a = np.empty(tuple(t.shape), dtype=object)
    if isinstance(names, str):
        if t.ndim == 0:
            a[()] = var(names)
        else:
            for idx in np.ndindex(*t.shape):
                a[idx] = var(names + '_' + '_'.join(map(str, idx)))
    else:
        nm = np.asarray(names, dtype=object).reshape(-1)
        fl = a.reshape(-1)
        for i in range(fl.size):
            fl[i] = var(nm[i])
    if requires_grad:
        t.requires_grad_()
    return SymT(t, a)


def env_of(*symts):
    """{var name: concrete value} for tensors created by sym_tensor"""
    env = {}
    for s in symts:
        vals = s.elem.reshape(-1).tolist()
        for n, v in zip(s.sym.reshape(-1), vals):
            if n.op == 'var':
                env[n.args[0]] = v
    return env


def validate(symt, env, tol=1e-9):
    """the real kernels are the oracle for the handlers: DAG evaluated at the base point must reproduce elem"""
    memo = {}
    worst = 0.0
    vals = symt.elem.reshape(-1).to(torch.float64).tolist()
    for n, v in zip(symt.sym.reshape(-1), vals):
        f = to_float(n, env, memo)
        err = abs(f - v) / max(1.0, abs(v))
        worst = max(worst, err)
        if not err <= tol:
            raise AssertionError(f"symbolic handler validation failed: dag={f} kernel={v}")
    return worst
