"""Stubs injected into the module globals of torchsde._brownian.brownian_interval (the source file is not edited)."""
import numpy as np
import torch

from . import symx
from .dag import var
from .symtorch import SymT

_installed = {}
NOISE_CALLS = []     # (seed, size) of every _randn call, in order


def noise_names(seed, size):
    size = tuple(size)
    a = np.empty(size, dtype=object)
    tag = f"N{int(seed)}" + (("s" + "x".join(map(str, size))) if size else "")
    if size == ():
        a[()] = var(tag)
    else:
        for idx in np.ndindex(*size):
            a[idx] = var(tag + "_" + "_".join(map(str, idx)))
    return a


def install():
    from torchsde._brownian import brownian_interval as bi
    if _installed:
        return bi
    real_randn = bi._randn
    _installed['randn'] = real_randn

    def randn_stub(size, dtype, device, seed):
        NOISE_CALLS.append((int(seed), tuple(size)))
        elem = real_randn(size, dtype, device, seed)
        return SymT(elem, noise_names(seed, size))

    bi._randn = randn_stub
    bi.float = symx.float_shim
    bi.math = symx.MathShim()
    bi.round = symx.sym_round
    # module-level constants evaluated from floats: keep (algebraic reading happens in the interpreters)
    return bi


class pristine:
    """context manager: the module globals of brownian_interval are the real ones inside (float re-execution of a path)"""

    def __enter__(self):
        from torchsde._brownian import brownian_interval as bi
        import builtins, math
        self.bi = bi
        self.saved = (bi._randn, bi.float, bi.math, bi.round)
        bi._randn = _installed['randn']
        bi.float = builtins.float
        bi.math = math
        bi.round = builtins.round
        return self

    def __exit__(self, *a):
        bi = self.bi
        bi._randn, bi.float, bi.math, bi.round = self.saved


STUBS = [
    "brownian_interval._randn -> SymT(real randn values, noise symbols keyed by (seed, shape))",
    "brownian_interval.float -> identity on proxies (isinstance(x, float) preserved)",
    "brownian_interval.math.sqrt -> algebraic sqrt node (concrete value from math.sqrt)",
    "brownian_interval.round -> exact decimal rounding with an integer witness, exact ties excluded",
]
