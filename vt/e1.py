"""Helpers for E1 harnesses that run the real sdeint / sdeint_adjoint on symbolic tensors."""
import time
from fractions import Fraction

import numpy as np
import torch
import z3

from . import dag, sdes
from .dag import lift, ZERO
from .symtorch import SymT, validate


def all_forward_configs(grad_free=True):
    """(sde_type, method, noise_type, options) accepted by the REAL solver classes"""
    from torchsde._core import methods
    out = []
    for st, ms in sdes.FORWARD_METHODS.items():
        for m in ms:
            cls = methods.select(m, st)
            for nt in cls.noise_types:
                out.append((st, m, nt, {}))
                if grad_free and m == 'milstein' and nt != 'additive':
                    out.append((st, m, nt, {'grad_free': True}))
    return out


def noise_dim(nt, d, m):
    return d if nt == 'diagonal' else (1 if nt == 'scalar' else m)


class Z:
    """z3 plumbing shared by one scenario"""

    def __init__(self, timeout_ms=45000):
        self.zv = {}
        self.memo = {}
        self.timeout_ms = timeout_ms
        self.solver_s = 0.0
        self.queries = 0
        self.pmemo = {}
        self.rmemo = {}
        self.normal_form = 0
        self.ground = True
        self.ground_hits = 0
        self.smemo = {}

    def zenv(self, name):
        return self.zv.setdefault(name, z3.Real(name))

    def equal(self, a, b, assumptions=()):
        """returns ('unsat'|'sat'|'unknown', model dict) for the query a != b"""
        if a is b:
            return 'unsat', {}
        # ground instance first: an exact rational evaluation at a generic point refutes a wrong identity in milliseconds
        # (a concrete witness; the replay confirms it).  Identities that hold are never affected: they go on to the solver.
        if not assumptions and self.ground:
            try:
                sm = self.smemo
                pt = dag.generic_point(dag.support(a, sm) | dag.support(b, sm))
                em = {}
                if dag.eval_exact(a, pt, em) != dag.eval_exact(b, pt, em):
                    self.queries += 1; self.ground_hits += 1
                    return 'sat', {k: float(v) for k, v in pt.items()}
            except (NotImplementedError, ZeroDivisionError, OverflowError):
                pass
        # polynomial identities: exact normal form first, z3 decides the residual  (residual == 0 is `unsat` at once;
        # a non-zero residual gives a concrete counterexample).  Non-polynomial terms go to z3 as they are.
        zclaim = None
        side = []
        try:
            res = dag.to_poly(a, self.pmemo) - dag.to_poly(b, self.pmemo)
            zclaim = res.to_z3(self.zenv) != 0
            self.normal_form += 1
        except NotImplementedError:
            try:
                # rational functions: numerator of a - b over the least common denominator (denominators non-zero: the traced
                # run divided by them; also added as assumptions)
                num, D = dag.to_ratfun(dag._sub(a, b), self.rmemo)
                zclaim = num.to_z3(self.zenv) != 0
                side = [('den', dag._FACTORS[k].to_z3(self.zenv) != 0) for k in D]
                self.normal_form += 1
            except NotImplementedError:
                side = []
                za = dag.to_z3(a, self.zenv, self.memo, side)
                zb = dag.to_z3(b, self.zenv, self.memo, side)
                zclaim = za != zb
        s = z3.Solver()
        s.set('timeout', self.timeout_ms)
        s.add(*[c for _, c in side])
        s.add(*assumptions)
        s.add(zclaim)
        from .core import z3_check
        t = time.time()
        r = z3_check(s, self.timeout_ms)
        self.solver_s += time.time() - t
        self.queries += 1
        model = {}
        if r == 'sat':
            mdl = s.model()
            for dcl in mdl.decls():
                if dcl.arity():
                    continue
                try:
                    v = mdl[dcl]
                    model[dcl.name()] = float(Fraction(v.numerator_as_long(), v.denominator_as_long()))
                except Exception:
                    try:
                        model[dcl.name()] = float(mdl[dcl].approx(12).as_fraction())
                    except Exception:
                        pass
        return r, model


def flat_nodes(t):
    return list(t.sym.reshape(-1))


def weighted_loss(mk, ys, prefix='lw'):
    """sum of outputs with symbolic weights (arbitrary linear loss on every output time)"""
    w = mk(prefix, tuple(ys.shape), values=0.5 + 0.1 * np.arange(ys.numel()).reshape(tuple(ys.shape)))
    return (ys * w).sum()
