#!/bin/sh
# dev helper: run every thorough check once (long), print exit code and wall time
cd "$(dirname "$0")/.."
for p in ${@:-C11 C15 C12 C14 C19 C17 C20 C13 C16 C08 C10 C09 C04 C06 C07 C05 C18 C01 C02 C03}; do
  s=$(date +%s)
  VT_TASK_TIMEOUT=3000 ./run.sh $p thorough > thorough_$p.log 2>&1
  rc=$?
  e=$(date +%s)
  echo "$p exit=$rc wall=$((e-s))s $(grep -c '^VIOLATION' thorough_$p.log) violations $(grep -c '^KNOWN-FINDING' thorough_$p.log) known $(grep -c '^INCONCLUSIVE' thorough_$p.log) inconclusive"
  grep '^INCONCLUSIVE\|^VIOLATION\|^  what' thorough_$p.log | cut -c1-250 | head -6
done
