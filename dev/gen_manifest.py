#!/usr/bin/env python3
"""regenerates MANIFEST.json from the table below"""
import json, os
ROOT = os.path.dirname(os.path.dirname(os.path.abspath(__file__)))
E1 = "E1 symtorch: real torchsde code traced through torch dispatch with symbolic tensor payloads (DAG), z3 on the resulting identities"
E2 = "E2 symx: concolic execution of the real scalar control code, z3 decides path feasibility and per-path assertions"
CLAIMED = {
 'C01': dict(engine='E1+E2', technique='symbolic step-series of the real solver step at the order read from the real solver object + loop-tiling proof (z3); Milstein fundamental theorem trusted',
             text='Bounded symbolic check of the local conditions (mean O(h^{p+1}), mean-square O(h^{p+1/2})) that imply strong order p by the fundamental theorem of mean-square convergence, for every accepted (sde_type, method, noise_type, grad_free) with p read from the real solver; plus the proof that consecutive steps consume bm(t_k,t_{k+1}) on the tiling of [ts0, ts_end], that step() does not depend on the history of the solver object (every step is the analysed step), and the adaptive-loop invariants (accepted state = two half steps over its own interval, rejected trials leave time and state untouched). The limit itself is not decidable by a bounded query.',
             note='trusted: Milstein fundamental theorem, Ito/Stratonovich-Taylor expansion (vt/taylor.py), per-op ATen handlers (validated against the real kernels on every run), z3; generic polynomial f,g of degree (1,3) at d=1, affine (quick) / degree (1,2) (thorough) at d=2; reversible Heun: one step from a consistent state', ref='4/C01'),
 'C02': dict(engine='E1', technique='real solver.step traced symbolically; graded power-series coefficients vs Ito/Stratonovich-Taylor oracle decided by z3 for all jets of f,g',
             text='For every accepted solver/noise-type/option combination the real step() is executed on symbolic (t,y,h,dW,U,A) with generic polynomial f,g whose coefficients are symbols; every series coefficient of grade <= 2p and the Gaussian expectation to grade 2p+1 are proved equal to the stochastic Taylor expansion for all coefficient values (z3), Euler/Milstein textbook formulas exactly; step() on a used solver object is the identical operation DAG as on a fresh one (no hidden per-instance state).',
             note='bounds: d=1 degree (1,3) (SRK diagonal/scalar (1,2) in quick), d=2,m=2 affine (quick) / degree (1,2) (thorough), one step; trusted: oracle in vt/taylor.py, ATen handlers (validated per run), z3', ref='4/C02'),
 'C03': dict(engine='E2', technique='concolic exploration of the real BrownianInterval/_Interval code over symbolic query times and histories; Chen identities proved per path by z3 coefficient-wise',
             text='All feasible paths of the real tree code for <=1 (quick) / <=2 (thorough) symbolic prior queries followed by a symbolic triple s<u<t are executed; on each, additivity of W, Chen relation for U, zero-length queries, antisymmetry and Chen fold of A, the location lemma and the tree-partition invariant are proved for all times following that path; every path is re-executed on float64 times on the unpatched module (comparisons decided by rounding).',
             note='bounds as in evidence; real arithmetic for float64; histories beyond the bound argued by the per-path tree invariants (stated induction)', ref='4/C03'),
 'C04': dict(engine='E2', technique='exact covariance of the linear map noise->outputs of the real bridge code, symbolic split point / end points, z3 (NRA with algebraic square roots)',
             text='Single-split covariance lemma for an arbitrary parent interval and split ratio, top-level law with symbolic end points, partition covariances after symbolic histories (W) and exact algebraic checks at rational times (H, deep trees), Davie/Foster conditional mean and variance on a stored piece and on a query merged from two pieces (antisymmetry, mean given the pieces, variance), seed distinctness (one-step induction on the real spawn-key code) and noise shapes, all on the real code; tolerance mode on resolved (grid) times.',
             note='Gaussianity from linearity in independent N(0,1) symbols; independence of streams with distinct (seed,shape) is the documented contract of torch.Generator / SeedSequence (assumed)', ref='4/C04'),
 'C05': dict(engine='E2', technique='structural identity of hash-consed float-operation DAGs of repeated answers on every concolic path; z3 decides value equality where structures differ',
             text='On every path of the real code for symbolic histories/interleavings (cache sizes 0,1,2,3,45,None, forced tree refinement, a time axis through 0, all Levy modes) the second answer is the same float-operation DAG as the first and the concrete kernels give equal bits; earlier returned tensors are not mutated.',
             note='bit-identity rests on IEEE determinism of identical operation sequences', ref='4/C05'),
 'C06': dict(engine='E2', technique='DAG identity across two real objects with the same entropy, and fresh-vs-used object in dyadic mode, on every concolic path',
             text='Same entropy/options/query sequence => identical value DAGs and bits; in halfway_tree mode (and BrownianTree) the value of a symbolic grid query is the same DAG on a fresh object and after arbitrary symbolic prior queries, including histories of single-argument point queries on a BrownianTree with non-zero w0; entropies include 0.',
             note='entropy values concrete (SeedSequence is C code); "different entropies give different paths" outside the claim', ref='4/C06'),
 'C07': dict(engine='E2+E3', technique='concolic exploration of constructor/__call__ with arbitrary real query times (off-grid, sub-tolerance) for crashes; frame-depth monitor on symbolic chains; CrossHair on _LRUDict',
             text='Any exception other than the documented one on a feasible path, a cache larger than cache_size, or a per-call frame depth that grows along a chain-shaped history is a counterexample (replayed on floats with the default recursion limit); the configuration sdeint builds by default is read back from the real check_contract and explored.',
             note='long histories decided through history-independence of the frame depth on small chains', ref='4/C07'),
 'C08': dict(engine='E1', technique='real sdeint + real autograd traced symbolically; gradient DAG vs symbolic derivative of the forward DAG (exact polynomial normal form, residual decided by z3)',
             text='For every solver x noise type x grad_free, two fixed steps and an interpolated output with symbolic y0, parameters, increments and loss weights: each autograd gradient component equals the symbolic derivative of the traced numerical solution for all symbol values; also with a plain y0 (parameter gradients only).',
             note='exact derivative replaces finite differences; bounds d<=2, 2 steps, degree (1,2)', ref='4/C08'),
 'C09': dict(engine='E1', technique='real sdeint_adjoint vs sdeint traced symbolically: forward DAG identity, gradient-structure observations, exact rational-function equality of adjoint and backprop gradients in the exactly solvable case (z3 on the residual)',
             text='sdeint_adjoint forward values are the identical float-operation DAG as sdeint for every accepted (sde_type, method, noise_type, grad_free); only y0 and requested adjoint parameters receive gradients; for autonomous affine drift + additive noise with Euler both ways the adjoint gradient equals backprop exactly for arbitrary loss weights on 2-3 output times. Every backward segment starts from the stored forward output with the selected adjoint solver; the adjoint vector fields equal the prescribed ones (the C11 obligations, discharged here as the lemma of the reduction). Convergence as dt->0 is reduced to this lemma + C03/C05 + solver order (stated), not decided.',
             note='the dt->0 limit and finite-dt agreement with closed forms are outside; d<=2, m<=2', ref='4/C09'),
 'C10': dict(engine='E1', technique='both gradient computations of the real code (adjoint_reversible_heun vs backprop through reversible_heun) traced symbolically; equality as real polynomial functions (normal form + z3 residual)',
             text='For all four noise types, 2 steps with quadratic f,g (3 with affine), arbitrary loss weights on all output times: every gradient component (y0 and each parameter) from sdeint_adjoint equals the backprop gradient for all symbol values; forward DAGs identical; variants: y0 without grad, loss also on the returned extras, adjoint_params a subset.',
             note='algebraic identity over the reals; float rounding magnitude (1e-9) reported by the replay only', ref='4/C10'),
 'C16': dict(engine='E1', technique='DAG identity of real sdeint runs over interface variants; derived operators vs definitions built with dag.diff, polynomial normal form + z3 residual',
             text='For every accepted solver configuration the SDE exposed via f_and_g, f+g_prod, f_and_g_prod, f_and_g+g_prod, renamed via names, or all methods gives the identical operation DAG as the f+g baseline, or fails with the explicit missing-method error; g_prod, the Milstein g dg v term (all noise types) and both dg_ga_jvp_column_sum implementations equal their definitions for all symbol values.',
             note='user-supplied products written with the kernels the library uses (g*v, bmm)', ref='4/C16'),
 'C17': dict(engine='E1', technique='real sdeint on a special-noise SDE and on its general-noise embedding, same symbolic increments; equality as real functions (normal form + z3 residual)',
             text='diagonal / scalar / additive declarations vs the general declaration with (batch,d,m) diffusion matrices, for euler, euler_heun, heun, midpoint, reversible_heun, log_ode (antisymmetric symbolic Levy area): every output component equal for all symbol values, also at batch 2 with a per-row diffusion factor; the adaptive controller (real integrate + update_step_size on symbolic error estimates) walks the same mesh whatever order / noise type the solver object declares.',
             note='equality over the reals (different float operations by construction)', ref='4/C17'),
 'C18': dict(engine='E1', technique='real sdeint(logqp=True) traced symbolically (pinverse intercepted as (g^T g)^-1 g^T); identities by rational normal form + z3 residual, non-negativity by z3',
             text='State trajectory DAG identical to the run without logqp; output shape (T-1, batch); exact value 1/2|c|^2 (t_i - t_{i-1}) when f-h = g c (single-stage solvers for all noise types, all solvers for diagonal/additive except SRK-diagonal); Euler increments equal 1/2|g^+(f-h)|^2 dt at the grid states for all four noise types; non-negativity where z3 decides it; the stable_division guard selects the regular branch on the whole domain |g| > 1e-7; batch 2 for Euler.',
             note='|g| > 1e-7 / full rank of g assumed (the guard in the code is proved to agree with that domain); cases whose normal form does not cancel within budget are listed as outside', ref='4/C18'),
 'C19': dict(engine='E2', technique='concolic enumeration of symbolic enum/int-valued options through the real sdeint/sdeint_adjoint front end (z3 decides branch feasibility; coverage = size of the product), oracle table from DOCUMENTATION.md',
             text='Full forward product (2816 combinations incl. invalid/None method, bm given or not, adaptive, logqp): ValueError before integrate iff unsupported, documented default method and default Levy area; adjoint product: unsupported adjoint methods raise during backward, supported ones complete; bm shapes in 1..3 and all 32 interface subsets: ValueError iff inconsistent/missing; further malformed-argument classes by concrete observation.',
             note='support table transcribed from the documentation; exceptions raised inside user-supplied g_prod when probed with an inconsistent bm count as refused', ref='4/C19'),
 'C11': dict(engine='E1', technique='real AdjointSDE on a real ForwardSDE traced through autograd (double backward included); z3 equality with the prescribed fields built from dag.diff of the traced f,g',
             text='All 2x4 (sde_type, noise_type) combinations, symbolic (t,y,a,v,params incl. an unused one): drift, diffusion-vector product, the fused f_and_g_prod and the diagonal Milstein term equal the mathematically prescribed quantities (independently derived closed form incl. the Ito conversion terms); graph discipline under no_grad / enable_grad observed.',
             note='bounds d=2, m=2, degree (1,2)', ref='4/C11'),
 'C12': dict(engine='E2', technique='concolic execution of the real BaseSDESolver.integrate / linear_interp over symbolic ts and dt; grid, interpolation and invariance assertions proved per path by z3',
             text='All paths for <=4 output times / <=3 steps (quick): step k is [ts0+k dt, min(ts0+(k+1)dt, ts_end)], ys[0] is y0, outputs are the grid state or the linear interpolant of the neighbouring grid states, removing/adding an output time leaves the others unchanged; shape/dtype, and list-vs-tensor ts giving identical values under the library default dtype, by a finite sweep of real sdeint calls.',
             note='step treated as an arbitrary function; real arithmetic', ref='4/C12'),
 'C13': dict(engine='E1+E2', technique='identical float-operation DAGs of chunked vs one-shot real sdeint runs (modulo IEEE-exact 1*x, 0*x, x+0); step-interval equality for symbolic t0/dt by concolic execution of the real integrate loop + z3',
             text='Every accepted solver x noise type (+grad_free): solving [t0,t2] at once and in 2-3 chunks restarted from the returned final state and extra solver state, with the same Brownian object and restart points on the dt grid (final time on or off the grid), gives the identical operation DAG (hence identical bits); reversible Heun restarted WITHOUT its extra state differs (twin). Chunk step intervals equal the one-shot ones for symbolic t0, dt and a clipped last step.',
             note='dyadic dt so that grid times are exact floats; float drift of accumulated times for non-dyadic dt is outside', ref='4/C13'),
 'C14': dict(engine='E2+E1', technique='concolic execution of the real adaptive loop + real update_step_size with arbitrary error estimates (nondeterministic stub) and an uninterpreted real power; error norm formula by z3',
             text='Per-trial invariants on every schedule within the trial bound: trial interval, halves, accept iff e<=1 or at dt_min, rejected steps leave state untouched and shrink, accepted state is the two-half-step one, final time exactly ts[-1]; compute_error equals the mixed rtol/atol RMS norm.',
             note='precondition dt>=dt_min>0; termination via stated ranking argument', ref='4/C14'),
 'C15': dict(engine='E1', technique='real ReversibleHeun.step with uninterpreted drift/diffusion function symbols, real ReverseBrownian; z3 (EUF+NRA) proves the reverse step inverts the forward step',
             text='For all four noise types, symbolic step sizes, 1-3 steps: the reverse solve on the negated time-reversed SDE reconstructs (y, z, -f, -g) of every forward state exactly, for ALL f and g, whatever Levy area the Brownian motion advertises.',
             note='real arithmetic; numerical stability outside', ref='4/C15'),
}
CLAIMED['C20'] = dict(engine='E1+E2', technique='support (reachable input symbols) of the output DAG rows of real sdeint runs, z3 where a foreign symbol occurs syntactically; DAG identity under row permutation; support of real BrownianInterval outputs per element',
             text='For every accepted solver configuration with batch 2-3: output row i mentions only row-i symbols of y0 and of the Brownian increments (plus shared parameters), permuting input rows permutes the output DAGs, also for the log-ratio output of logqp=True; each element of a BrownianInterval sample (W, U, A) depends only on its own noise element(s), noise drawn at the full sample shape.',
             note='row-wise user SDE; a deliberately coupled SDE is flagged (twin)', ref='4/C20')
PENDING = {
 'C13': 'harness under construction (chunked vs one-shot DAG identity)',
 'C16': 'harness under construction (interface variants, derived operators)',
 'C17': 'harness under construction (special noise types vs general embedding)',
 'C18': 'harness under construction (logqp)',
 'C20': 'harness under construction (row independence via DAG support)',
}
import importlib.util
for pid in list(CLAIMED):
    if not os.path.exists(os.path.join(ROOT, 'vt', 'props', pid.lower() + '.py')):
        PENDING[pid] = 'harness under construction'
        del CLAIMED[pid]
for pid in list(PENDING):
    if pid in CLAIMED:
        del PENDING[pid]
checks = []
for pid in sorted(CLAIMED):
    c = CLAIMED[pid]
    checks.append({
        'property_id': pid,
        'quick_cmd': f'./run.sh {pid} quick',
        'thorough_cmd': f'./run.sh {pid} thorough',
        'evidence_file': f'/verif/evidence/{pid}.json',
        'replay_cmd_template': f'./run.sh {pid} --replay {{path}}',
        'engine': c['engine'],
        'level_claimed': {'category': 'model_checking', 'text': c['text'], 'design_ref': 'DESIGN.md section ' + c['ref']},
        'level_note': c['note'],
        'technique': c['technique'],
    })
man = {
 'version': 1,
 'setup_cmd': 'sh ./setup.sh',
 'hooks': {'guard': 'TORCHSDE_VERIF', 'enable': 'no source hooks are needed: stubs are injected into module globals from the harness process (run.sh exports TORCHSDE_VERIF=1, unused by the repository)',
           'baseline_off_cmd': 'cd /repo && /venv/bin/python -m pytest -ra -q -p no:cacheprovider --timeout=900 --continue-on-collection-errors',
           'source_commits': [], 'add_only': True},
 'engines': [
   {'name': 'E1 symtorch', 'path': 'vt/symtorch.py vt/dag.py vt/series.py vt/taylor.py vt/sdes.py vt/e1.py', 'serves_properties': ['C01','C02','C08','C09','C10','C11','C13','C15','C16','C17','C18','C20'], 'kind_free_text': E1},
   {'name': 'E2 symx', 'path': 'vt/symx.py vt/bshim.py vt/brownian.py vt/loopmodel.py', 'serves_properties': ['C01','C03','C04','C05','C06','C07','C12','C14','C19','C20'], 'kind_free_text': E2},
   {'name': 'E3 crosshair', 'path': 'vt/crosshair_units/', 'serves_properties': ['C07','C19'], 'kind_free_text': 'CrossHair 0.0.110 contracts on pure-Python units calling the real functions'},
 ],
 'checks': checks,
 'notes': 'Solver-based bounded checking of the real code (z3 5.1; CrossHair for pure-Python units). Every result is bounded; bounds, stubs, functions encoded, queries and solver time are in each evidence file. Fix commits in /repo: see known_findings.json (fixed entries). exit 2 = inconclusive/harness error (never reported as success or violation).',
 'not_applicable': [{'property_id': p, 'reason': r} for p, r in sorted(PENDING.items())],
}
json.dump(man, open(os.path.join(ROOT, 'MANIFEST.json'), 'w'), indent=1)
print('claimed', sorted(CLAIMED), 'pending', sorted(PENDING))
