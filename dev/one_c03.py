import sys, time, signal
from vt.props import c03
i = int(sys.argv[1]); tier = sys.argv[2] if len(sys.argv) > 2 else 'quick'
cfg,k = c03.configs(tier)[i]
print(cfg,k, flush=True)
t=time.time()
r = c03.run_one((cfg,k,4000,60000))
print(i, r['stats'], r['wall'], r['nfail'])
for f in r['failures'][:4]: print('   ', f['what'], f['kind'], f['detail'][:200])
