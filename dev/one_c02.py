import sys, time
from vt.props import c02
tasks = c02.task_list('quick')
i = int(sys.argv[1])
print(tasks[i], flush=True)
r = c02.analyse(tasks[i])
print({k:v for k,v in r.items() if k!='fails'})
for f in r['fails'][:5]: print('  FAIL', f['kind'], f['mon'], f['result'], f['diff'], f['nmon'])
