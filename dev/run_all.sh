#!/bin/sh
# dev helper: run every quick check once, print exit code and wall time
cd "$(dirname "$0")/.."
tier=${1:-quick}
for p in C01 C02 C03 C04 C05 C06 C07 C08 C09 C10 C11 C12 C13 C14 C15 C16 C17 C18 C19 C20; do
  s=$(date +%s)
  ./run.sh $p $tier > /tmp/all_$p.log 2>&1
  rc=$?
  e=$(date +%s)
  echo "$p exit=$rc wall=$((e-s))s $(grep -c '^VIOLATION' /tmp/all_$p.log) violations $(grep -c '^KNOWN-FINDING' /tmp/all_$p.log) known $(grep -c '^INCONCLUSIVE' /tmp/all_$p.log) inconclusive"
done
