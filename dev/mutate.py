#!/usr/bin/env python3
"""dev self-test: apply a seeded change to a scratch worktree of /repo (never to /repo itself), confirm the demonstration
fails with it and passes without it, optionally run the repository test-suite, run the given checks against the scratch copy
(VT_REPO) with outputs under /tmp, and remove the worktree.

usage: dev/mutate.py <seeded-id> [--tests] [--tier quick|thorough] [checks...]   (default check: the id itself)"""
import json, os, shutil, subprocess, sys, time
ROOT = os.path.dirname(os.path.dirname(os.path.abspath(__file__)))


def sh(cmd, **kw):
    return subprocess.run(cmd, shell=True, capture_output=True, text=True, **kw)


def main():
    args = sys.argv[1:]
    sid = args.pop(0)
    tests = '--tests' in args
    if tests: args.remove('--tests')
    tier = 'quick'
    if '--tier' in args:
        i = args.index('--tier'); tier = args[i + 1]; del args[i:i + 2]
    checks = args or [sid.split('_')[0].rstrip('abcdefgh')]
    sdir = os.path.join(ROOT, 'seeded', sid)
    wt = f'/tmp/mut_{sid}'
    out = f'/tmp/mut_out_{sid}'
    sh(f'git -C /repo worktree remove --force {wt}'); shutil.rmtree(wt, ignore_errors=True); shutil.rmtree(out, ignore_errors=True)
    r = sh(f'git -C /repo worktree add --detach {wt} HEAD')
    if r.returncode: print(r.stderr); return 2
    res = {'id': sid, 'checks': {}}
    try:
        demo = [f for f in os.listdir(sdir) if f.startswith('demo')][0]
        env = dict(os.environ, PYTHONPATH=wt, OMP_NUM_THREADS='1')
        d0 = subprocess.run(['/venv/bin/python', os.path.join(sdir, demo)], cwd=wt, env=env, capture_output=True, text=True, timeout=1800)
        res['demo_without_change'] = d0.returncode
        r = sh(f'git -C {wt} apply --3way {sdir}/patch.diff')
        if r.returncode:
            r = sh(f'cd {wt} && patch -p1 --fuzz=3 < {sdir}/patch.diff')
        res['patch_applied'] = r.returncode == 0
        if r.returncode:
            print('patch failed', r.stdout[-500:], r.stderr[-500:]); return 2
        c = sh(f'cd {wt} && PYTHONPATH={wt} /venv/bin/python -c "import torchsde; print(torchsde.__file__)"')
        res['imports_from'] = c.stdout.strip()
        d1 = subprocess.run(['/venv/bin/python', os.path.join(sdir, demo)], cwd=wt, env=env, capture_output=True, text=True, timeout=1800)
        res['demo_with_change'] = d1.returncode
        if tests:
            t = time.time()
            tr = sh(f'cd {wt} && OMP_NUM_THREADS=1 PYTHONPATH={wt} /venv/bin/python -m pytest -q -n 12 -p no:cacheprovider --timeout=900 tests/ 2>&1 | tail -3')
            res['tests'] = tr.stdout.strip().splitlines()[-1] if tr.stdout.strip() else tr.stderr[-200:]
            res['tests_wall_s'] = round(time.time() - t)
        for ck in checks:
            t = time.time()
            e = dict(os.environ, VT_REPO=wt, VT_OUT=out)
            cr = subprocess.run([os.path.join(ROOT, 'run.sh'), ck, tier], env=e, capture_output=True, text=True)
            lines = [l for l in cr.stdout.splitlines() if l.startswith(('VIOLATION', '  what', 'KNOWN-FINDING', 'INCONCLUSIVE', '['))]
            res['checks'][ck] = {'exit': cr.returncode, 'wall_s': round(time.time() - t), 'lines': [l[:260] for l in lines[:8]]}
    finally:
        sh(f'git -C /repo worktree remove --force {wt}'); shutil.rmtree(wt, ignore_errors=True); shutil.rmtree(out, ignore_errors=True)
        sh('git -C /repo worktree prune')
    print(json.dumps(res, indent=1))
    return 0


if __name__ == '__main__':
    sys.exit(main())
