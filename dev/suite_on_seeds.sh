#!/bin/sh
# dev helper: confirm the pinned test-suite passes on the tree with each given seeded change applied (scratch worktrees)
for id in "$@"; do
  wt=/tmp/mt_$id
  git -C /repo worktree remove --force $wt 2>/dev/null; rm -rf $wt
  git -C /repo worktree add --detach $wt HEAD -q || continue
  (cd $wt && (git apply /verif/seeded/$id/patch.diff || patch -p1 --fuzz=3 < /verif/seeded/$id/patch.diff) && OMP_NUM_THREADS=1 PYTHONPATH=$wt /venv/bin/python -m pytest -q -n 8 -p no:cacheprovider tests/ 2>&1 | tail -2 > /tmp/mt_$id.txt)
  git -C /repo worktree remove --force $wt; rm -rf $wt
done
git -C /repo worktree prune
touch /tmp/mt_done4
