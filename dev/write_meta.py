#!/usr/bin/env python3
"""writes seeded/<id>/meta.json from the results of dev/mutate.py (/tmp/mut_<id>.json) and the test-suite confirmation runs"""
import json, os, sys
ROOT = os.path.dirname(os.path.dirname(os.path.abspath(__file__)))
INFO = {
 'C01': ('C01', "SRK.__init__ dispatch inverted: scalar noise falls into additive_step (diffusion frozen at y0) while strong_order still advertises 1.5", "method='srk', noise_type='scalar', state-dependent diffusion"),
 'C02': ('C02', "SRK output stage evaluates the diffusion at the drift time nodes C0 instead of C1", "method='srk', diagonal or scalar noise, diffusion with explicit time dependence (an O(h^1.5) zero-mean term: order 1.5 -> 1.0)"),
 'C03': ('C03', "Levy-area merge hoists W.unsqueeze out of the loop: from the third stored piece on the Chen cross term uses the first piece's increment", "davie/foster, sample shape with >= 2 dims, a query answered from >= 3 stored pieces (needs a history)"),
 'C04': ('C04', "top-level H scaled by sqrt(h^2/12) instead of sqrt(h/12)", "space-time/davie/foster, t1-t0 != 1, H not supplied"),
 'C05': ('C05', "per-node Levy area memoised when cache_size=None + in-place accumulation of A in the multi-piece merge: the memoised A of the first piece is overwritten", "cache_size=None, davie/foster, >= 2-D shape, a multi-piece query followed by a re-query of its first piece"),
 'C06': ('C06', "Levy-area seeds drawn from a stateful stream in split order instead of from (entropy, spawn_key, depth)", "halfway_tree=True, davie/foster, >= 2-D shape, histories that split the dyadic nodes in a different order"),
 'C07': ('C07', "`yield` -> `yield from` in _increment_and_space_time_levy_area: the parent lookup becomes real recursion (depth = consecutive cache misses up the chain)", "bounded cache, N consecutive small steps then a step back (no dependency-tree refinement in between)"),
 'C08': ('C08', "Milstein JVP direction g*v2 built under torch.no_grad in g_prod_and_gdg_prod_default: backprop drops the (dg/dy) dg term", "method='milstein' (derivative-using), scalar noise, state-dependent diffusion; forward values bit-identical"),
 'C09': ('C09', "adjoint backward starts at the last output time with a non-zero cotangent but restores ys[-1] instead of ys[end]", ">= 3 output times and a loss that does not depend on the last one(s); not the reversible-Heun pair"),
 'C10': ('C10', "initial extra solver state (f0, g0, z0) computed without autograd graph when y0 does not require grad", "reversible_heun/adjoint_reversible_heun with y0.requires_grad == False: parameter gradients lose the first-step contribution"),
 'C11': ('C11', "double Stratonovich correction in _f_corrected_default computed as a VJP instead of a JVP", "Ito, scalar or general noise, non-symmetric diffusion Jacobian"),
 'C12': ('C12', "fixed-step loop advances curr_t by curr_t + step_size instead of the clipped next_t", "ts[-1]-ts[0] not a multiple of dt (clipped last step): outputs in/at the end of the last step are mis-timed"),
 'C13': ('C13', "sdeint returns the extra solver state it was HANDED when extra_solver_state is supplied together with extra=True", "reversible_heun, >= 3 chunks (a middle chunk both receives and returns extra state)"),
 'C14': ('C14', "adaptive loop takes curr_extra from every trial, also rejected ones", "solver with extra state (reversible_heun) + at least one rejected trial"),
 'C15': ('C15', "ReversibleHeun.step evaluates f,g at t0 + self.dt instead of t1", "time-dependent f/g and a step with t1 - t0 != solver.dt (clipped last step, adaptive half steps)"),
 'C16': ('C16', "dg_ga_jvp_column_sum_v2 duplicates y with repeat instead of repeat_interleave (row order mismatch)", "fast_dg_ga_jvp_column_sum=True, general noise, batch size > 1"),
 'C17': ('C17', "log_ode fast path for additive noise reuses g(t0) dW from the first stage instead of g(t0+dt/2) dW", "additive noise declared, method log_ode, time-dependent diffusion"),
 'C18': ('C18', "SDELogqp.f_general: 0.5 * u.sum()**2 instead of 0.5 * (u**2).sum()", "non-diagonal noise, a solver that calls sde.f directly (srk, derivative Milstein), >= 2 non-zero entries of u (additive noise with m >= 2)"),
 'C19': ('C19', "refactor of the size-consistency loops checks state_sizes twice and never noise_sizes", "explicit bm whose channel count differs from the diffusion's noise size (diagonal: silently broadcast)"),
 'C03b': ('C03', "zero-length shortcut rewritten as `tb - ta < tol`: a query exactly one grid step long whose float difference falls a hair below tol returns zeros", "tol > 0 and a one-grid-step query with float rounding in tb - ta (not visible in real arithmetic)"),
 'C04b': ('C04', "spawn key masked to 32 bits: nodes at depth >= 33 whose last 32 left/right steps agree share all noise seeds", "trees of depth >= 33 (a fixed-step sweep with a dt hint produces them): cross-covariances between far-apart intervals"),
 'C07b': ('C07', "rounded-coincidence test guarded by `tb - ta < tol`: with a tolerance that is not a power of ten the rounding grid is coarser than tol", "halfway_tree, tol such as 5e-2 / 5e-4, a query at least tol long whose ends round to the same grid point: RecursionError"),
 'C12b': ('C12', "`if curr_t >= out_t: ys.append(curr_y)` fast path: later outputs inside an already-taken step are not interpolated", "two or more output times strictly inside the same step"),
 'C14b': ('C14', "_rms for sequences: mean over batch rows of per-row RMS instead of the RMS over all elements", "batch size > 1 with different per-row errors: error norm under-estimated, steps with error > 1 accepted"),
 'C19b': ('C19', "_select_default_adjoint_method tests `method == adjoint_reversible_heun` instead of `reversible_heun`", "sdeint_adjoint(method='reversible_heun') with adjoint_method omitted: backward silently uses midpoint"),
 'C01b': ('C01', "SRK.diagonal_or_scalar_step: stage time hoisted into one variable, so the diffusion is evaluated at the drift abscissa C0 instead of C1", "method='srk', Ito, diagonal or scalar noise, diffusion with explicit time dependence (order 1.5 -> 1.0)"),
 'C02b': ('C02', "grad-free Milstein: `g[:, 0]` instead of `g.squeeze(2)` picks the first state row instead of the single noise column and broadcasts", "method='milstein', options grad_free=True, scalar noise, state dimension >= 2"),
 'C05b': ('C05', "_loc_inner 'locality' shortcut: a query beginning inside the current node takes that node's share and sends only the rest to the parent, so the pieces returned depend on _last_interval", "X, then a query whose last piece lies inside a prefix of X, then X again: W/U re-assembled from children differ in the last bits"),
 'C06b': ('C06', "BrownianTree.__call__: `out += self._w0` mutates the tensor stored in the tree when the point query resolves to exactly one node", "BrownianTree, w0 != 0, single-argument query bm(t) with [t0, t] a single dyadic node (t = t1, t0 + (t1-t0)/2^k)"),
 'C08b': ('C08', "g_prod_and_gdg_prod_diagonal: create_graph only when y.requires_grad (forgets that g depends on the parameters)", "derivative Milstein, diagonal noise, plain y0 (no grad), gradients wrt diffusion parameters: first step's correction term is a constant"),
 'C09b': ('C09', "_f_corrected_default: per-column Ito-conversion terms overwritten in the loop, only the last diffusion column's term is added", "Ito, general noise, m >= 2, state-dependent diffusion in a column other than the last, gradients through sdeint_adjoint"),
 'C10b': ('C10', "_SdeintAdjointMethod.backward replaces the incoming cotangents of the returned extra solver state by zeros", "sdeint_adjoint(..., extra=True) with the reversible-Heun pair and a loss (or a continued solve) that depends on the returned (f, g, z)"),
 'C11b': ('C11', "AdjointSDE.g_prod_and_gdg_prod_diagonal: `.detach()` lost when hoisting v2 * g, mixed partials gain product-rule terms that cancel part of the result", "diagonal noise, Milstein on the adjoint SDE, state-dependent diffusion: adj_y and parameter parts of gdg_prod wrong"),
 'C13b': ('C13', "grad-free Milstein caches sqrt(dt) on the solver object at the first step (hidden per-call state)", "milstein grad_free, fixed steps, final time off the step grid with the clipped partial step in a chunk of its own"),
 'C15b': ('C15', "ReversibleHeun adds a space-time Levy correction prod(g0 - g1, H) to y1 for additive noise: symmetric, not antisymmetric, under reversal", "additive noise, time-dependent g, Brownian motion with levy_area_approximation != 'none'"),
 'C16b': ('C16', "new g_prod_and_gdg_prod_scalar registered for scalar noise computing the Milstein term as a VJP (J^T g v) instead of a JVP", "scalar noise, derivative Milstein, state dimension >= 2, non-symmetric diffusion Jacobian"),
 'C17b': ('C17', "update_step_size gains an `order` argument fed with solver.strong_order, which depends on the declared noise type", "adaptive=True; solvers whose strong_order differs between the special and the general declaration: meshes differ"),
 'C18b': ('C18', "parse_return: `log_ratio[1:] - log_ratio[:1]` instead of `[:-1]`: cumulative values instead of per-interval increments", "logqp=True with >= 3 output times (rows after the first are cumulative)"),
 'C20b': ('C20', "dg_ga_jvp_column_sum_v2 made the default and `repeat_interleave` replaced by `repeat`: Jacobian rows evaluated at another batch row's state", "method='log_ode', general noise, davie/foster Levy area, batch >= 2, m >= 2, rows with different states"),
 'C02c': ('C02', "SRK.additive_step caches 1/dt on the solver object at the first step and reuses it", "method='srk', additive noise, the same solver instance taking steps of two different sizes (clipped last step, adaptive half steps), state-dependent drift"),
 'C03c': ('C03', "Foster branch of _davie_foster_approximation: hoisted unsqueeze, std depends on H_i only, so the area is no longer antisymmetric", "levy_area_approximation='foster', shape (B, m) with m >= 2, return_A=True"),
 'C04c': ('C04', "precedence slip in the multi-piece Levy-area merge: 0.5*W(x)Wi - Wi(x)W", "davie/foster, return_A=True, >= 2-D size, a query assembled from >= 2 stored tree nodes (history or dt hint)"),
 'C05c': ('C05', "_create_dependency_tree fast path tests `not interval._midway`: an internal node split at exactly 0.0 is treated as a leaf and re-split", "t0 < 0 < t1, a query boundary at exactly 0.0, no dt hint, halfway_tree=False, > 100 queries so that the tree refinement fires"),
 'C06c': ('C06', "`entropy = entropy or np.random.randint(...)`: the explicit seed 0 is replaced by a random one", "entropy=0 passed to BrownianInterval / BrownianTree"),
 'C07c': ('C07', "`if not cache_size:` gives cache_size=0 the unbounded dict instead of _EmptyDict", "cache_size=0 and at least one non-trivial query: cache grows with the history"),
 'C08c': ('C08', "ReversibleHeun.init_extra_solver_state: z0 = y0.detach().clone() cuts the autograd edge from z0 to y0", "method='reversible_heun', gradient with respect to y0 (forward values unchanged)"),
 'C09c': ('C09', "AdjointSDE.g_prod evaluates the forward diffusion at t instead of -t", "adjoint_method='euler_heun' (the only adjoint solver calling g_prod on its own), Stratonovich, diffusion with explicit time dependence"),
 'C10c': ('C10', "AdjointReversibleHeun.step differentiates w.r.t. all parameters of the forward SDE and zips against adjoint_params", "adjoint_params a proper subset / reordering of sde.parameters() (or frozen parameters)"),
 'C12c': ('C12', "check_contract builds the ts tensor from a list without dtype=y0.dtype (default dtype float32)", "ts passed as list/tuple, y0 float64 under the stock float32 default dtype, times not exactly representable in float32"),
 'C13c': ('C13', "fixed step size refined by an integer factor derived from the smallest output spacing of the call's ts", "fixed steps, an output spacing finer than dt/1.5 in one chunk only"),
 'C14c': ('C14', "compute_error: per-element tolerance no longer clamped at eps", "adaptive=True, atol=0, a state entry exactly zero across a trial step: NaN error estimate, AssertionError"),
 'C16c': ('C16', "ForwardSDE.f_default returns zeros instead of raising", "SDE without a standalone f (drift only through f_and_g / f_and_g_prod) and a solver asking for f (srk, derivative Milstein)"),
 'C18c': ('C18', "misc.stable_division guard `b.detach() > epsilon` without abs: negative denominators replaced by -epsilon", "logqp=True, diagonal noise, a negative diffusion entry"),
 'C19c': ('C19', "is_strictly_increasing vectorised as `(ts[1:] >= ts[:-1]).all()`", "ts with two equal consecutive times: accepted instead of ValueError"),
 'C20c': ('C20', "SDELogqp pseudo-inverse shortcut for a single noise channel normalised by (g**2).sum() over the whole batch", "logqp=True, scalar noise or general/additive with m == 1, batch >= 2"),
 'C01c': ('C01', "BaseSDESolver.integrate: `curr_t = next_t` hoisted out of both branches, so a rejected adaptive trial advances time without advancing the state", "adaptive=True and at least one rejected trial: the drift and Brownian increment over the rejected interval are dropped"),
 'C11c': ('C11', "f_and_g_prod_corrected_diagonal builds its drift with _f_uncorrected (copy-paste)", "Ito, diagonal noise, state-dependent g, an adjoint solver that uses f_and_g_prod (adjoint_method='euler')"),
 'C15c': ('C15', "ReversibleHeun.init_extra_solver_state evaluates f_and_g at -t0", "ts[0] != 0, explicitly time-dependent f or g, library-made initial extra state: state 0 is not reconstructed"),
 'C17c': ('C17', "new ForwardSDE.prod_additive uses g[0] for the whole batch (one mm instead of bmm)", "additive noise, batch >= 2, diffusion matrix differing across batch rows"),
 'C07d': ('C07', "_Interval.__init__ no longer rounds start/end to the tolerance (\"round once\" refactor): the top-level t0/t1 are not snapped to the grid while queries still are", "tol > 0 (BrownianTree default), t0 that rounds down or t1 that rounds up, a query starting at t0 / ending at t1: AttributeError on the parent of the top node"),
 'C09d': ('C09', "AdjointSDE.g_prod_and_gdg_prod_diagonal: `.detach()` removed from the grad_outputs of the mixed-partials VJP", "diagonal noise, Milstein as adjoint solver on a Stratonovich SDE (explicit adjoint_method='milstein'), state-dependent g: gradient bias that does not vanish with dt"),
 'C14d': ('C14', "adaptive trial steps clipped to the next OUTPUT time instead of ts[-1]", "adaptive=True, > 2 output times, an intermediate output closer than dt_min to the end of the previous accepted step: trial shorter than dt_min not ending at ts[-1]"),
 'C16d': ('C16', "dg_ga_jvp_column_sum_v1 re-leafs y AFTER evaluating g: the JVP is taken w.r.t. a leaf g does not depend on and silently becomes zero", "log_ode, general noise with >= 2 channels, Levy-area Brownian motion, state without autograd history (plain y0 / no_grad)"),
 'C20': ('C20', "Levy-area noise drawn at size[1:-1] + (m, m) and broadcast over the batch", "davie/foster, batch >= 2, m >= 2: all batch rows share the Levy-area noise (marginals unchanged)"),
}
for sid, (prop, what, needs) in INFO.items():
    d = os.path.join(ROOT, 'seeded', sid)
    if not os.path.isdir(d):
        continue
    meta = {'property': prop, 'change': what, 'needs_to_manifest': needs, 'files': ['patch.diff', [f for f in os.listdir(d) if f.startswith('demo')][0]]}
    ran = {}
    try:
        cands = [f for f in (f'/tmp/mut_{sid}.json', f'/tmp/mutall_{sid}.json') if os.path.exists(f)]
        r = json.load(open(max(cands, key=os.path.getmtime)))
        ran['demo_on_unchanged_worktree_exit'] = r.get('demo_without_change')
        ran['demo_with_change_exit'] = r.get('demo_with_change')
        ran['checks_against_changed_worktree'] = {k: {'exit': v['exit'], 'wall_s': v['wall_s'], 'first_lines': v['lines'][:3]} for k, v in r.get('checks', {}).items()}
    except Exception as e:
        old = os.path.join(d, 'meta.json')
        if os.path.exists(old):
            ran = json.load(open(old)).get('what_i_ran', {})
    try:
        ran['repository_test_suite_with_change'] = open(f'/tmp/mt_{sid}.txt').read().strip().splitlines()[-1]
    except Exception:
        old = os.path.join(d, 'meta.json')
        if os.path.exists(old):
            v = json.load(open(old)).get('what_i_ran', {}).get('repository_test_suite_with_change')
            if v: ran['repository_test_suite_with_change'] = v
    ran['how'] = ("dev/mutate.py: fresh `git worktree` of /repo HEAD under /tmp, demo run before and after `git apply patch.diff`, then "
                  "`VT_REPO=<worktree> ./run.sh <check> quick`; test-suite: `pytest -n 8 tests/` in a second scratch worktree with the patch; worktrees removed afterwards")
    meta['what_i_ran'] = ran
    json.dump(meta, open(os.path.join(d, 'meta.json'), 'w'), indent=1)
    print(sid, ran.get('demo_without_change'), {k: v['exit'] for k, v in ran.get('checks_against_changed_worktree', {}).items()}, ran.get('repository_test_suite_with_change', '-')[:40])
