import sys, time
from vt.props import c02
tier = sys.argv[1] if len(sys.argv)>1 else 'quick'
tasks = c02.task_list(tier)
for t in tasks:
    t0=time.time()
    try:
        r = c02.analyse(t)
        print(t[:8], 'p=',r['p'], 'q=',r['queries'], 'terms=',r['terms'], 'fails=',len(r['fails']), f"{time.time()-t0:.1f}s", flush=True)
        for f in r['fails'][:3]: print('     FAIL', f['kind'], f['mon'], f['result'], f['diff'], f['nmon'], flush=True)
    except Exception as e:
        import traceback; traceback.print_exc()
        print(t[:8], 'ERROR', type(e).__name__, str(e)[:300], flush=True)
