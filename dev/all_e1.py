import sys, time, importlib
mod = importlib.import_module('vt.props.'+sys.argv[1]); tier = sys.argv[2] if len(sys.argv)>2 else 'quick'
for t in mod.tasks_for(tier):
    t0=time.time()
    try:
        r = mod.scenario(t)
        bad = r.get('bad', r.get('results'))
        bad = [x[:2] for x in bad if x[1] != 'unsat']
        print(t[:7], 'BAD' if bad else 'ok', bad[:3], r.get('identities'), r.get('twin'), round(r['solver_s'],2), round(time.time()-t0,1), flush=True)
    except Exception as e:
        import traceback; traceback.print_exc(limit=5); print(t[:7], 'ERR', type(e).__name__, str(e)[:300], flush=True)
