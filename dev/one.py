import sys, time, importlib
mod = importlib.import_module('vt.props.'+sys.argv[1])
tier = sys.argv[3] if len(sys.argv)>3 else 'quick'
tasks = mod.tasks_for(tier) if hasattr(mod,'tasks_for') else None
i = int(sys.argv[2])
t = tasks[i]
print(t, flush=True)
r = mod.run_one(t)
print(i, r['stats'], round(r['wall'],1), 'nfail', r['nfail'])
seen=set()
for f in r['failures']:
    if f['what'] in seen: continue
    seen.add(f['what']); print('   ', f['what'], f['kind'], f['inputs'], f['detail'][:300])
