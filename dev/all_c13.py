import time, sys
from vt.props import c13
for t in c13.tasks_for('quick'):
    t0=time.time()
    try:
        r = c13.scenario(t); print(t[:4], r['ndiff'], r['real_equal'], r['bits'], round(time.time()-t0,1), flush=True)
    except Exception as e:
        import traceback; traceback.print_exc(limit=4); print(t[:4], 'ERR', type(e).__name__, str(e)[:200], flush=True)
