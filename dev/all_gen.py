import time, sys, importlib
mod = importlib.import_module('vt.props.'+sys.argv[1]); tier = sys.argv[2] if len(sys.argv)>2 else 'quick'
for t in mod.tasks_for(tier):
    t0=time.time()
    try:
        r = mod.scenario(t); print(t, {k:v for k,v in r.items() if k not in ('task',)}, round(time.time()-t0,1), flush=True)
    except Exception as e:
        import traceback; traceback.print_exc(limit=4); print(t, 'ERR', type(e).__name__, str(e)[:200], flush=True)
