#!/bin/sh
# dev helper: take the uncommitted change + demo out of a sub-agent's scratch worktree /tmp/seed_<id> into seeded/<id>/,
# remove the worktree, then confirm demo / test-suite / check in a fresh scratch worktree (dev/mutate.py).
id=$1
cd "$(dirname "$0")/.."
wt=/tmp/seed_$id
mkdir -p seeded/$id
git -C $wt diff -- torchsde > seeded/$id/patch.diff
cp $wt/demo_$id.py seeded/$id/ 2>/dev/null || cp $wt/demo*.py seeded/$id/demo_$id.py
git -C /repo worktree remove --force $wt; rm -rf $wt /tmp/seedwork_$id; git -C /repo worktree prune
wc -l seeded/$id/patch.diff
python3 dev/mutate.py $id --tests > /tmp/collect_$id.json 2>&1
cat /tmp/collect_$id.json
