import sys
from vt.props import c02
from vt.core import pmap
T=[]
for st, method, nt, opts in c02.accepted_configs():
    T.append((st, method, nt, opts, False))
    if nt in ('diagonal','additive'): T.append((st, method, nt, opts, True))
n=0
for t,(s,r) in zip(T, pmap(c02.aliasing, T)):
    if s!='ok' or r['bad']:
        n+=1; print(t, s, (r['bad'][:1] if s=='ok' else str(r)[:300]))
print('tasks', len(T), 'flagged', n)
