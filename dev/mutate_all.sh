#!/bin/sh
# dev helper: run every seeded change against its check (3 lanes); results in /tmp/mutall_<id>.json
cd "$(dirname "$0")/.."
ls seeded | xargs -P 4 -I{} sh -c 'python3 dev/mutate.py {} > /tmp/mutall_{}.json 2>&1'
for f in /tmp/mutall_*.json; do id=$(basename $f .json | sed s/mutall_//); python3 - "$f" "$id" <<'PY'
import json,sys
try:
    d=json.load(open(sys.argv[1]))
    print(sys.argv[2], 'demo', d.get('demo_without_change'), d.get('demo_with_change'), {k:(v['exit'], v['wall_s']) for k,v in d['checks'].items()})
except Exception as e:
    print(sys.argv[2], 'UNREADABLE', e)
PY
done
